import RecipeGrid.Model.Parser
import RecipeGrid.Lemmas.Parser
/-! C06: the parser model is total, and everything that can be written is recovered verbatim.

    The round-trip statements all have the shape
    `rule (pre ++ print x ++ rest).toArray ⟨pre.length, z⟩ = some (x', ⟨(pre ++ print x).length, z⟩)`:
    wherever the printed text `print x` stands (after any `pre`), and whatever the flag `z`, the rule
    consumes exactly `print x` and returns the expected fragment `x'` (offsets are absolute, so they
    are shifted by `pre.length`), provided `rest` satisfies the *follow condition* of the rule.
    The printers below are the specification of the permitted spellings; they do not mention the parser. -/
namespace RG.C06
open RG.Parser

/-- the parser model is total: it returns one of the three outcomes for every text -/
theorem parse_total (s : Str) : (∃ stmts, parse s = .ok stmts) ∨ parse s = .syntaxError := by
  unfold parse; split <;> simp

/-! ## Follow conditions -/

/-- the next character (if any) is not in the class `p` -/
def NextNot (p : Char → Bool) (rest : Str) : Prop := ∀ c, rest.head? = some c → p c = false

/-! ## Layer 1: lexical -/

/-- a non-empty run of ASCII digits (leading zeros allowed) -/
def IsDigits (ds : Str) : Prop := ds ≠ [] ∧ ∀ c ∈ ds, isDigit c = true
/-- a possibly empty run of blanks `[ \t]` -/
def IsBlanks (s : Str) : Prop := ∀ c ∈ s, isHsp c = true
/-- a possibly empty run of `\s` characters -/
def IsSpaces (s : Str) : Prop := ∀ c ∈ s, isReSpace c = true

/-- `digits` recovers every digit run that is followed by a non-digit (or the end of the text) -/
theorem digits_roundtrip (pre ds rest : Str) (z : Bool) (hd : IsDigits ds) (hr : NextNot isDigit rest) :
    digits (pre ++ ds ++ rest).toArray ⟨pre.length, z⟩ = some (ds, ⟨(pre ++ ds).length, z⟩) := by
  have := digits_run z (t := (pre ++ ds ++ rest).toArray) (i := pre.length) (ds := ds) (rest := rest)
    (by simp) hd.1 hd.2 hr
  simpa using this

theorem hsp_roundtrip (pre bs rest : Str) (z : Bool) (hne : bs ≠ []) (hb : IsBlanks bs) (hr : NextNot isHsp rest) :
    hsp (pre ++ bs ++ rest).toArray ⟨pre.length, z⟩ = some ((), ⟨(pre ++ bs).length, z⟩) := by
  have := hsp_run z (t := (pre ++ bs ++ rest).toArray) (i := pre.length) (xs := bs) (rest := rest)
    (by simp) hne hb hr
  simpa using this

/-- `hsp?` (also on the empty run) -/
theorem ohsp_roundtrip (pre bs rest : Str) (z : Bool) (hb : IsBlanks bs) (hr : NextNot isHsp rest) :
    ohsp (pre ++ bs ++ rest).toArray ⟨pre.length, z⟩ = some ((), ⟨(pre ++ bs).length, z⟩) := by
  have := ohsp_run z (t := (pre ++ bs ++ rest).toArray) (i := pre.length) (xs := bs) (rest := rest)
    (by simp) hb hr
  simpa using this

theorem sp_roundtrip (pre ws rest : Str) (z : Bool) (hne : ws ≠ []) (hw : IsSpaces ws) (hr : NextNot isReSpace rest) :
    sp (pre ++ ws ++ rest).toArray ⟨pre.length, z⟩ = some ((), ⟨(pre ++ ws).length, z⟩) := by
  have := sp_run z (t := (pre ++ ws ++ rest).toArray) (i := pre.length) (xs := ws) (rest := rest)
    (by simp) hne hw hr
  simpa using this

/-- `sp?` (also on the empty run) -/
theorem osp_roundtrip (pre ws rest : Str) (z : Bool) (hw : IsSpaces ws) (hr : NextNot isReSpace rest) :
    osp (pre ++ ws ++ rest).toArray ⟨pre.length, z⟩ = some ((), ⟨(pre ++ ws).length, z⟩) := by
  have := osp_run z (t := (pre ++ ws ++ rest).toArray) (i := pre.length) (xs := ws) (rest := rest)
    (by simp) hw hr
  simpa using this

/-- a literal character is recognised wherever it stands, and nothing else is -/
theorem lit_roundtrip (pre rest : Str) (c : Char) (z : Bool) :
    lit c (pre ++ [c] ++ rest).toArray ⟨pre.length, z⟩ = some ((), ⟨(pre ++ [c]).length, z⟩) := by
  have := lit_of_head (c := c) z (t := (pre ++ [c] ++ rest).toArray) (i := pre.length) (rest := rest) (by simp)
  simpa using this

theorem lit_rejects (pre rest : Str) (c : Char) (z : Bool) (h : rest.head? ≠ some c) :
    lit c (pre ++ rest).toArray ⟨pre.length, z⟩ = none :=
  lit_fail_of_head z (by simp) h

example : digits "ab0129x".toList.toArray ⟨2, false⟩ = some ("0129".toList, ⟨6, false⟩) := by decide +kernel
example : hsp "a \t b".toList.toArray ⟨1, true⟩ = some ((), ⟨4, true⟩) := by decide +kernel
example : sp "a \n\t b".toList.toArray ⟨1, false⟩ = some ((), ⟨5, false⟩) := by decide +kernel

/-! ## Layer 2: numbers -/

/-- value of a digit run, most significant digit first -/
def digitsValue (ds : Str) : Nat := ds.foldl (fun n d => 10 * n + (d.toNat - 48)) 0

/-- the specification's reading of a digit run is the model's -/
theorem natOfDigits_eq_digitsValue (ds : Str) : natOfDigits ds = digitsValue ds := rfl

/-- the spellings of a number -/
inductive NumLit where
  /-- `[0-9]+` -/
  | int (ds : Str)
  /-- `[0-9]+ "." [0-9]*` -/
  | dec (whole frac : Str)
  /-- `p "/" blanks q`: no blank before the slash -/
  | frac (p s2 q : Str)
  /-- `w blanks p blanks "/" blanks q` -/
  | mixed (w s0 p s1 s2 q : Str)

namespace NumLit

def print : NumLit → Str
  | int ds => ds
  | dec whole fr => whole ++ '.' :: fr
  | frac p s2 q => p ++ '/' :: s2 ++ q
  | mixed w s0 p s1 s2 q => w ++ s0 ++ p ++ s1 ++ '/' :: s2 ++ q

/-- which spellings are permitted: digit runs where digits are required (the part after the
    decimal point may be empty), blanks `[ \t]*` where blanks are allowed, at least one blank after
    the integer part of a mixed fraction, and a denominator with a non-zero digit -/
def WF : NumLit → Prop
  | int ds => IsDigits ds
  | dec whole fr => IsDigits whole ∧ ∀ c ∈ fr, isDigit c = true
  | frac p s2 q => IsDigits p ∧ IsBlanks s2 ∧ IsDigits q ∧ digitsValue q ≠ 0
  | mixed w s0 p s1 s2 q =>
    IsDigits w ∧ s0 ≠ [] ∧ IsBlanks s0 ∧ IsDigits p ∧ IsBlanks s1 ∧ IsBlanks s2 ∧ IsDigits q ∧ digitsValue q ≠ 0

/-- the number that is meant: an `int`, the `float` nearest to the decimal, or an exact `Fraction` -/
def value : NumLit → Num
  | int ds => ⟨(digitsValue ds : Nat), .int⟩
  | dec whole fr => ⟨toDouble (mkRat (digitsValue (whole ++ fr) : Nat) (10 ^ fr.length)), .flt⟩
  | frac p _ q => ⟨mkRat (digitsValue p) (digitsValue q), .frac⟩
  | mixed w _ p _ _ q => ⟨((digitsValue w : Nat) : Rat) + mkRat (digitsValue p) (digitsValue q), .frac⟩

end NumLit

/-- `decimal` on an integer spelling: what follows must not continue the digits nor be a "." -/
theorem decimal_int_roundtrip (pre ds rest : Str) (z : Bool) (hd : IsDigits ds)
    (hr : NextNot isDigit rest) (hdot : rest.head? ≠ some '.') :
    decimal (pre ++ (NumLit.int ds).print ++ rest).toArray ⟨pre.length, z⟩
      = some ((pre.length, (NumLit.int ds).value), ⟨(pre ++ (NumLit.int ds).print).length, z⟩) := by
  have := decimal_int z (t := (pre ++ ds ++ rest).toArray) (i := pre.length) (ds := ds) (rest := rest)
    (by simp) hd.1 hd.2 hr hdot
  simpa [NumLit.print, NumLit.value, natOfDigits_eq_digitsValue] using this

/-- `decimal` on `whole "." frac` (the digits after the point may be missing) -/
theorem decimal_dec_roundtrip (pre whole frac rest : Str) (z : Bool) (h : (NumLit.dec whole frac).WF)
    (hr : NextNot isDigit rest) :
    decimal (pre ++ (NumLit.dec whole frac).print ++ rest).toArray ⟨pre.length, z⟩
      = some ((pre.length, (NumLit.dec whole frac).value), ⟨(pre ++ (NumLit.dec whole frac).print).length, z⟩) := by
  have := decimal_flt z (t := (pre ++ (whole ++ '.' :: frac) ++ rest).toArray) (i := pre.length)
    (whole := whole) (frac := frac) (rest := rest) (by simp) h.1.1 h.1.2 h.2 hr
  simpa [NumLit.print, NumLit.value, natOfDigits_eq_digitsValue] using this

/-- `fraction` on `p/q` -/
theorem fraction_frac_roundtrip (pre p s2 q rest : Str) (z : Bool) (h : (NumLit.frac p s2 q).WF)
    (hr : NextNot isDigit rest) :
    fraction (pre ++ (NumLit.frac p s2 q).print ++ rest).toArray ⟨pre.length, z⟩
      = some ((pre.length, (NumLit.frac p s2 q).value), ⟨(pre ++ (NumLit.frac p s2 q).print).length, z⟩) := by
  obtain ⟨hp, hs2, hq, hq0⟩ := h
  have := fraction_two z (t := (pre ++ (p ++ '/' :: s2 ++ q) ++ rest).toArray) (i := pre.length)
    (p := p) (s2 := s2) (q := q) (rest := rest) (by simp) hp.1 hp.2 hs2 hq.1 hq.2 hq0 hr
  simpa [NumLit.print, NumLit.value, natOfDigits_eq_digitsValue] using this

/-- `fraction` on `w p/q` -/
theorem fraction_mixed_roundtrip (pre w s0 p s1 s2 q rest : Str) (z : Bool)
    (h : (NumLit.mixed w s0 p s1 s2 q).WF) (hr : NextNot isDigit rest) :
    fraction (pre ++ (NumLit.mixed w s0 p s1 s2 q).print ++ rest).toArray ⟨pre.length, z⟩
      = some ((pre.length, (NumLit.mixed w s0 p s1 s2 q).value),
              ⟨(pre ++ (NumLit.mixed w s0 p s1 s2 q).print).length, z⟩) := by
  obtain ⟨hw, hs0ne, hs0, hp, hs1, hs2, hq, hq0⟩ := h
  have := fraction_three z (t := (pre ++ (w ++ s0 ++ p ++ s1 ++ '/' :: s2 ++ q) ++ rest).toArray) (i := pre.length)
    (w := w) (s0 := s0) (p := p) (s1 := s1) (s2 := s2) (q := q) (rest := rest) (by simp)
    hw.1 hw.2 hs0ne hs0 hp.1 hp.2 hs1 hs2 hq.1 hq.2 hq0 hr
  simpa [NumLit.print, NumLit.value, natOfDigits_eq_digitsValue] using this

/-- what may follow a spelling for `number` to recover exactly that spelling:
    * after any spelling, no further digit;
    * after an integer spelling moreover no ".", and - after optional blanks - neither a "/" nor
      a digit (otherwise the text is, or starts like, a fraction). -/
def NumLit.Follow : NumLit → Str → Prop
  | .int _, rest => rest.head? ≠ some '.' ∧
      ∀ c, (rest.dropWhile isHsp).head? = some c → isDigit c = false ∧ c ≠ '/'
  | _, rest => NextNot isDigit rest

/-- `number` (= `fraction / decimal`) recovers every permitted spelling, as the abstract
    "spelling of a number" predicate used by the rules that embed numbers -/
theorem numberAt_of_wf (l : NumLit) (rest : Str) (h : l.WF) (hf : l.Follow rest) :
    NumberAt l.print rest l.value := by
  intro t i z ht
  cases l with
  | int ds =>
    obtain ⟨hdot, hr⟩ := hf
    have hsplit : rest = rest.takeWhile isHsp ++ rest.dropWhile isHsp := List.takeWhile_append_dropWhile.symm
    have hb : ∀ x ∈ rest.takeWhile isHsp, isHsp x = true := fun x hx => mem_takeWhile_imp hx
    have hnh : ∀ c, (rest.dropWhile isHsp).head? = some c → isHsp c = false := by
      intro c hc
      have := List.head?_dropWhile_not isHsp rest
      rw [hc] at this
      simpa using this
    have hff : fraction t ⟨i, z⟩ = none := by
      apply fraction_fail_int z (ds := ds) (b := rest.takeWhile isHsp) (r := rest.dropWhile isHsp)
        _ h.1 h.2 hb (fun c hc => ⟨hnh c hc, hr c hc⟩)
      simpa [NumLit.print, List.append_assoc] using ht
    have hnd : ∀ c, rest.head? = some c → isDigit c = false := by
      intro c hc
      cases hd : isDigit c with
      | false => rfl
      | true =>
        have hh := isHsp_of_isDigit hd
        cases rest with
        | nil => cases hc
        | cons x xs =>
          simp only [List.head?_cons, Option.some.injEq] at hc
          subst hc
          have := (hr x (by simp [hh])).1
          rw [hd] at this; cases this
    rw [number_of_decimal hff]
    have := decimal_int z ht h.1 h.2 hnd hdot
    simpa [NumLit.print, NumLit.value, natOfDigits_eq_digitsValue] using this
  | dec whole fr =>
    have hff : fraction t ⟨i, z⟩ = none :=
      fraction_fail_dot z (ds := whole) (rest := fr ++ rest) (by simpa [NumLit.print] using ht) h.1.1 h.1.2
    rw [number_of_decimal hff]
    have := decimal_flt z (whole := whole) (frac := fr) (rest := rest) (by simpa [NumLit.print] using ht)
      h.1.1 h.1.2 h.2 hf
    simpa [NumLit.print, NumLit.value, natOfDigits_eq_digitsValue] using this
  | frac p s2 q =>
    obtain ⟨hp, hs2, hq, hq0⟩ := h
    apply number_of_fraction
    have := fraction_two z (p := p) (s2 := s2) (q := q) (rest := rest) (by simpa [NumLit.print] using ht)
      hp.1 hp.2 hs2 hq.1 hq.2 hq0 hf
    simpa [NumLit.print, NumLit.value, natOfDigits_eq_digitsValue] using this
  | mixed w s0 p s1 s2 q =>
    obtain ⟨hw, hs0ne, hs0, hp, hs1, hs2, hq, hq0⟩ := h
    apply number_of_fraction
    have := fraction_three z (w := w) (s0 := s0) (p := p) (s1 := s1) (s2 := s2) (q := q) (rest := rest)
      (by simpa [NumLit.print] using ht) hw.1 hw.2 hs0ne hs0 hp.1 hp.2 hs1 hs2 hq.1 hq.2 hq0 hf
    simpa [NumLit.print, NumLit.value, natOfDigits_eq_digitsValue] using this

/-- **numbers are recovered verbatim**: `number` on any permitted spelling -/
theorem number_roundtrip (pre : Str) (l : NumLit) (rest : Str) (z : Bool) (h : l.WF) (hf : l.Follow rest) :
    number (pre ++ l.print ++ rest).toArray ⟨pre.length, z⟩
      = some ((pre.length, l.value), ⟨(pre ++ l.print).length, z⟩) := by
  have := numberAt_of_wf l rest h hf (pre ++ l.print ++ rest).toArray pre.length z (by simp)
  simpa using this

/-! ### the canonical spellings (`natDigits`) -/

theorem isDigits_natDigits (n : Nat) : IsDigits (natDigits n) :=
  ⟨natDigits_ne_nil n, natDigits_all_digit n⟩

theorem digitsValue_natDigits (n : Nat) : digitsValue (natDigits n) = n := digitsVal_natDigits n

/-- the integer `n`, written in decimal, is read back as the `int` `n` -/
theorem decimal_natDigits (pre rest : Str) (n : Nat) (z : Bool)
    (hr : NextNot isDigit rest) (hdot : rest.head? ≠ some '.') :
    decimal (pre ++ natDigits n ++ rest).toArray ⟨pre.length, z⟩
      = some ((pre.length, ⟨(n : Rat), .int⟩), ⟨(pre ++ natDigits n).length, z⟩) := by
  have := decimal_int_roundtrip pre (natDigits n) rest z (isDigits_natDigits n) hr hdot
  simpa [NumLit.print, NumLit.value, digitsValue_natDigits] using this

/-- `w.f` for a natural `w` and any digit run `f` (possibly empty) is read back as the `float`
    nearest to `(w·10^|f| + f) / 10^|f|` -/
theorem decimal_natDigits_dot (pre frac rest : Str) (w : Nat) (z : Bool)
    (hfrac : ∀ c ∈ frac, isDigit c = true) (hr : NextNot isDigit rest) :
    decimal (pre ++ (natDigits w ++ '.' :: frac) ++ rest).toArray ⟨pre.length, z⟩
      = some ((pre.length, ⟨toDouble (mkRat (w * 10 ^ frac.length + digitsValue frac : Nat) (10 ^ frac.length)), .flt⟩),
              ⟨(pre ++ (natDigits w ++ '.' :: frac)).length, z⟩) := by
  have := decimal_dec_roundtrip pre (natDigits w) frac rest z ⟨isDigits_natDigits w, hfrac⟩ hr
  have e : digitsValue (natDigits w ++ frac) = w * 10 ^ frac.length + digitsValue frac := by
    have := digitsVal_append (natDigits w) frac
    rw [digitsVal_natDigits] at this
    exact this
  simpa [NumLit.print, NumLit.value, e] using this

/-- `p/q` (`q > 0`) is read back as the exact fraction `p/q` -/
theorem fraction_natDigits (pre rest : Str) (p q : Nat) (z : Bool) (hq : 0 < q) (hr : NextNot isDigit rest) :
    fraction (pre ++ (natDigits p ++ '/' :: natDigits q) ++ rest).toArray ⟨pre.length, z⟩
      = some ((pre.length, ⟨mkRat p q, .frac⟩), ⟨(pre ++ (natDigits p ++ '/' :: natDigits q)).length, z⟩) := by
  have := fraction_frac_roundtrip pre (natDigits p) [] (natDigits q) rest z
    ⟨isDigits_natDigits p, by simp [IsBlanks], isDigits_natDigits q, by rw [digitsValue_natDigits]; omega⟩ hr
  simpa [NumLit.print, NumLit.value, digitsValue_natDigits] using this

/-- `i p/q` (`q > 0`) is read back as the exact fraction `i + p/q` -/
theorem fraction_natDigits_mixed (pre rest : Str) (i p q : Nat) (z : Bool) (hq : 0 < q) (hr : NextNot isDigit rest) :
    fraction (pre ++ (natDigits i ++ ' ' :: natDigits p ++ '/' :: natDigits q) ++ rest).toArray ⟨pre.length, z⟩
      = some ((pre.length, ⟨(i : Rat) + mkRat p q, .frac⟩),
              ⟨(pre ++ (natDigits i ++ ' ' :: natDigits p ++ '/' :: natDigits q)).length, z⟩) := by
  have := fraction_mixed_roundtrip pre (natDigits i) [' '] (natDigits p) [] [] (natDigits q) rest z
    ⟨isDigits_natDigits i, by simp, by simp [IsBlanks, isHsp], isDigits_natDigits p, by simp [IsBlanks],
      by simp [IsBlanks], isDigits_natDigits q, by rw [digitsValue_natDigits]; omega⟩ hr
  simpa [NumLit.print, NumLit.value, digitsValue_natDigits] using this

/-- `number` reads the decimal digits of `n` back as the `int` `n` -/
theorem number_natDigits (pre rest : Str) (n : Nat) (z : Bool) (hf : (NumLit.int (natDigits n)).Follow rest) :
    number (pre ++ natDigits n ++ rest).toArray ⟨pre.length, z⟩
      = some ((pre.length, ⟨(n : Rat), .int⟩), ⟨(pre ++ natDigits n).length, z⟩) := by
  have := number_roundtrip pre (.int (natDigits n)) rest z (isDigits_natDigits n) hf
  simpa [NumLit.print, NumLit.value, digitsValue_natDigits] using this

/-- `number` reads `p/q` (`q > 0`) back as the exact fraction -/
theorem number_natDigits_frac (pre rest : Str) (p q : Nat) (z : Bool) (hq : 0 < q) (hr : NextNot isDigit rest) :
    number (pre ++ (natDigits p ++ '/' :: natDigits q) ++ rest).toArray ⟨pre.length, z⟩
      = some ((pre.length, ⟨mkRat p q, .frac⟩), ⟨(pre ++ (natDigits p ++ '/' :: natDigits q)).length, z⟩) := by
  have := number_roundtrip pre (.frac (natDigits p) [] (natDigits q)) rest z
    ⟨isDigits_natDigits p, by simp [IsBlanks], isDigits_natDigits q, by rw [digitsValue_natDigits]; omega⟩ hr
  simpa [NumLit.print, NumLit.value, digitsValue_natDigits] using this

/-- a zero denominator is not a fraction (so `Fraction(n, 0)` is never built) -/
example : fraction "1/0".toList.toArray ⟨0, false⟩ = none := by decide +kernel
/-- a blank before the slash is only allowed in the three-part form -/
example : fraction "1 /2".toList.toArray ⟨0, false⟩ = none := by decide +kernel
example : number "x2 1 / 04,".toList.toArray ⟨1, false⟩
    = some ((1, ⟨(2 : Rat) + mkRat 1 4, .frac⟩), ⟨9, false⟩) := by decide +kernel
example : number "12 g".toList.toArray ⟨0, false⟩ = some ((0, ⟨12, .int⟩), ⟨2, false⟩) := by decide +kernel
example : (NumLit.mixed "2".toList " ".toList "1".toList " ".toList " ".toList "04".toList).WF := by
  simp [NumLit.WF, IsDigits, IsBlanks, isDigit, isHsp, digitsValue]

/-! # C06, layer 3: strings.  Everything that can be written as a quoted, naked or bracketed string,
    and every sequence of such atoms, is recovered verbatim by the string rules.

    As in `Props/C06.lean` every round-trip statement has the shape
    `rule (pre ++ print x ++ rest).toArray ⟨pre.length, z⟩ = some (x', ⟨(pre ++ print x).length, z⟩)`.
    The printers, the admissibility predicates and the expected values below are the specification;
    they do not mention the parser. -/

/-! ## Quoted strings -/

/-- `ESCAPE_CHARS.get(l, l)`: the character meant by the escape `\l` -/
def escapeValue (l : Char) : Char :=
  match Gen.escapeChars.lookup l.toNat with
  | some n => Char.ofNat n
  | none => l

/-- the specification's reading of an escape is the model's -/
theorem escapeValue_eq_unescape (l : Char) : escapeValue l = unescape l := rfl

/-- one item of a quoted (or bracketed) string as written: a character standing for itself, or a
    backslash followed by any character at all -/
inductive QChar where
  | raw (c : Char)
  | esc (l : Char)

namespace QChar

def print : QChar → Str
  | raw c => [c]
  | esc l => ['\\', l]

/-- the character that is meant -/
def value : QChar → Char
  | raw c => c
  | esc l => escapeValue l

/-- what may stand between two quotes `q`: every escape (also of a newline, of the quote, of the
    backslash), and every raw character except the quote, the backslash and the newlines -/
def Ok (q : Char) : QChar → Prop
  | raw c => c ≠ q ∧ c ≠ '\\' ∧ isNewline c = false
  | esc _ => True

end QChar

def printQuoted (q : Char) (items : List QChar) : Str := q :: items.flatMap QChar.print ++ [q]

theorem quotedItemOk_of_ok {q : Char} {it : QChar} (h : it.Ok q) : QuotedItemOk q (it.print, it.value) := by
  cases it with
  | raw c => exact Or.inl ⟨c, rfl, h⟩
  | esc l => exact Or.inr ⟨l, rfl⟩

/-- the parser lemma in the vocabulary of this file -/
theorem quotedString_of_ok {q : Char} (hq : q ≠ '\\') {items : List QChar} (hok : ∀ it ∈ items, it.Ok q)
    {t : Array Char} {i : Nat} {after : Str} (z : Bool) (h : t.toList.drop i = printQuoted q items ++ after) :
    quotedString q t ⟨i, z⟩
      = some ([.sub i (items.map QChar.value)], ⟨i + (printQuoted q items).length, z⟩) := by
  have := quotedString_items (q := q) hq (t := t) (i := i)
    (items := items.map fun it => (it.print, it.value)) (rest := after) z
    (by simpa [printQuoted, List.flatMap_map] using h)
    (by intro it hit; simp only [List.mem_map] at hit; obtain ⟨x, hx, rfl⟩ := hit
        exact quotedItemOk_of_ok (hok x hx))
  simpa [printQuoted, List.flatMap_map, Function.comp_def] using this

/-- **quoted strings are recovered item by item** (for any quote character other than the backslash;
    the grammar uses `'` and `"`) -/
theorem quoted_roundtrip_items (q : Char) (hq : q ≠ '\\') (pre : Str) (items : List QChar) (rest : Str)
    (z : Bool) (hok : ∀ it ∈ items, it.Ok q) :
    quotedString q (pre ++ printQuoted q items ++ rest).toArray ⟨pre.length, z⟩
      = some ([.sub pre.length (items.map QChar.value)], ⟨(pre ++ printQuoted q items).length, z⟩) := by
  have := quotedString_of_ok hq hok (t := (pre ++ printQuoted q items ++ rest).toArray) (i := pre.length)
    (after := rest) z (by simp)
  simpa using this

/-! ### the canonical spelling -/

/-- the letter `l` such that `\l` means `c`, if `ESCAPE_CHARS` has one -/
def escapeLetter (c : Char) : Option Char :=
  (Gen.escapeChars.find? fun p => p.2 == c.toNat).map fun p => Char.ofNat p.1

/-- a character as `escape` writes it between quotes: the backslash, both quotes and the control
    characters of `ESCAPE_CHARS` (among them both newlines) get their letter, everything else is raw -/
def escapeChar (c : Char) : Str :=
  match escapeLetter c with
  | some l => ['\\', l]
  | none => [c]

def quote (q : Char) (s : Str) : Str := q :: s.flatMap escapeChar ++ [q]

theorem escapeChar_eq (c : Char) : escapeChar c = (quoteItem c).1 := by
  have e : escapeLetter c = escLetter? c := rfl
  unfold escapeChar quoteItem
  rw [e]
  cases escLetter? c <;> rfl

theorem flatMap_escapeChar (s : Str) : s.flatMap escapeChar = quoteBody s := by
  have e : escapeChar = fun c => (quoteItem c).1 := funext escapeChar_eq
  rw [e]; rfl

theorem quote_roundtrip (q : Char) (hq : q = '\'' ∨ q = '"') (pre s rest : Str) (z : Bool) :
    quotedString q (pre ++ quote q s ++ rest).toArray ⟨pre.length, z⟩
      = some ([.sub pre.length s], ⟨(pre ++ quote q s).length, z⟩) := by
  have := quotedString_quote (q := q) hq (t := (pre ++ quote q s ++ rest).toArray) (i := pre.length)
    (s := s) (rest := rest) z (by simp [quote, flatMap_escapeChar])
  simpa [quote, flatMap_escapeChar] using this

/-- **every string can be written between single quotes**: whatever `s` is — quotes, backslashes
    and newlines included, since they are written `\'`, `\\`, `\n`, `\r` — its canonical spelling is
    read back as `s` -/
theorem squoted_roundtrip (pre s rest : Str) (z : Bool) :
    quotedString '\'' (pre ++ quote '\'' s ++ rest).toArray ⟨pre.length, z⟩
      = some ([.sub pre.length s], ⟨(pre ++ quote '\'' s).length, z⟩) :=
  quote_roundtrip '\'' (Or.inl rfl) pre s rest z

/-- **every string can be written between double quotes** -/
theorem dquoted_roundtrip (pre s rest : Str) (z : Bool) :
    quotedString '"' (pre ++ quote '"' s ++ rest).toArray ⟨pre.length, z⟩
      = some ([.sub pre.length s], ⟨(pre ++ quote '"' s).length, z⟩) :=
  quote_roundtrip '"' (Or.inr rfl) pre s rest z

example : quote '\'' "it's\n".toList = "'it\\'s\\n'".toList := by decide +kernel
example : quotedString '\'' "x 'it\\'s\\n' y".toList.toArray ⟨2, false⟩
    = some ([.sub 2 "it's\n".toList], ⟨11, false⟩) := by decide +kernel
/-- an escape of a character without a meaning is that character; a raw newline is refused -/
example : quotedString '"' "\"a\\qb\"".toList.toArray ⟨0, true⟩
    = some ([.sub 0 "aqb".toList], ⟨6, true⟩) := by decide +kernel
example : quotedString '"' "\"a\nb\"".toList.toArray ⟨0, false⟩ = none := by decide +kernel
example : ∀ it ∈ [QChar.raw 'a', .esc '\n', .esc '"', .raw '\''], it.Ok '"' := by
  simp [QChar.Ok, isNewline]

/-! ## Naked strings -/

/-- the characters that cannot occur in a naked string: `"',:=/(){}` -/
def IsSpecialChar (c : Char) : Prop := c ∈ ['"', '\'', ',', ':', '=', '/', '(', ')', '{', '}']

instance (c : Char) : Decidable (IsSpecialChar c) := by unfold IsSpecialChar; infer_instance

/-- a naked string: non-empty, without special characters and newlines, and neither starting nor
    ending with a `\s` character (inside, blanks are fine) -/
def IsNaked (txt : Str) : Prop :=
  txt ≠ [] ∧ (∀ c ∈ txt, ¬ IsSpecialChar c ∧ isNewline c = false)
  ∧ (∀ c, txt.head? = some c → isReSpace c = false) ∧ (∀ c, txt.getLast? = some c → isReSpace c = false)

/-- `c` cannot continue a naked string -/
def StopsNaked (c : Char) : Prop := IsSpecialChar c ∨ isNewline c = true

theorem isSpecial_iff (c : Char) : isSpecial c = true ↔ IsSpecialChar c := by
  simp [isSpecial, IsSpecialChar]

theorem isNakedInner_iff (c : Char) : isNakedInner c = true ↔ ¬ IsSpecialChar c ∧ isNewline c = false := by
  simp [isNakedInner, ← isSpecial_iff]

theorem isNakedInner_false_of_stops {c : Char} (h : StopsNaked c) : isNakedInner c = false := by
  cases hi : isNakedInner c with
  | false => rfl
  | true =>
    have := (isNakedInner_iff c).mp hi
    rcases h with h | h
    · exact absurd h this.1
    · rw [this.2] at h; cases h

theorem isNakedEdge_of (c : Char) (h1 : ¬ IsSpecialChar c) (h2 : isReSpace c = false) : isNakedEdge c = true := by
  have : isSpecial c = false := by
    cases hs : isSpecial c with
    | false => rfl
    | true => exact absurd ((isSpecial_iff c).mp hs) h1
  simp [isNakedEdge, this, h2]

/-- a naked string in terms of the character classes of the grammar -/
theorem IsNaked.model {txt : Str} (h : IsNaked txt) :
    txt ≠ [] ∧ (∀ c ∈ txt, isNakedInner c = true) ∧ (∀ c, txt.head? = some c → isNakedEdge c = true)
    ∧ (∀ c, txt.getLast? = some c → isNakedEdge c = true) := by
  obtain ⟨hne, hin, hfst, hlst⟩ := h
  exact ⟨hne, fun c hc => (isNakedInner_iff c).mpr (hin c hc),
    fun c hc => isNakedEdge_of c (hin c (List.mem_of_mem_head? hc)).1 (hfst c hc),
    fun c hc => isNakedEdge_of c (hin c (List.mem_of_mem_getLast? hc)).1 (hlst c hc)⟩

/-- **naked strings are recovered verbatim**; trailing white space `ws` (not newlines) is given
    back, and the string ends at a special character, at a newline or at the end of the text -/
theorem naked_roundtrip (pre txt ws rest : Str) (z : Bool) (h : IsNaked txt)
    (hws : ∀ c ∈ ws, isReSpace c = true ∧ isNewline c = false)
    (hr : ∀ c, rest.head? = some c → StopsNaked c) :
    nakedString (pre ++ txt ++ (ws ++ rest)).toArray ⟨pre.length, z⟩
      = some ([.sub pre.length txt], ⟨(pre ++ txt).length, z⟩) := by
  obtain ⟨hne, hin, hfst, hlst⟩ := h.model
  have := nakedString_run (t := (pre ++ txt ++ (ws ++ rest)).toArray) (i := pre.length) (txt := txt)
    (ws := ws) (rest := rest) z (by simp) hne hin hfst hlst
    hws (fun c hc => isNakedInner_false_of_stops (hr c hc))
  simpa using this

example : IsNaked "2 large eggs".toList := by
  refine ⟨by decide, by decide, by decide, by decide⟩
example : nakedString "2 large eggs \t, beaten".toList.toArray ⟨2, false⟩
    = some ([.sub 2 "large eggs".toList], ⟨12, false⟩) := by decide +kernel

/-! ## Bracketed strings -/

/-- one item between the braces as written: a character (raw or escaped) or a number -/
inductive BItem where
  | chr (c : QChar)
  | num (l : NumLit)

def BItem.print : BItem → Str
  | .chr c => c.print
  | .num l => l.print

/-- the text between the braces -/
def printBody (items : List BItem) : Str := items.flatMap BItem.print

def printBraced (items : List BItem) : Str := '{' :: printBody items ++ ['}']

/-- what may stand between braces as a character: every escape, and every raw character except
    the digits (they belong to numbers), the braces, the backslash and the newlines -/
def QChar.BracedOk : QChar → Prop
  | .raw c => isDigit c = false ∧ c ≠ '{' ∧ c ≠ '}' ∧ c ≠ '\\' ∧ isNewline c = false
  | .esc _ => True

/-- admissible bodies (`rest` is what follows the closing brace): admissible characters, and
    permitted spellings of numbers, each followed by something that does not continue it -/
def BracedOk (rest : Str) : List BItem → Prop
  | [] => True
  | .chr c :: items => c.BracedOk ∧ BracedOk rest items
  | .num l :: items => (l.WF ∧ l.Follow (printBody items ++ '}' :: rest)) ∧ BracedOk rest items

/-! The expected value.  Maximal runs of characters become one `.sub` each, numbers one `.num`
    each.  Offsets: a `.num` carries the offset of its first digit; a run carries the offset of the
    text of its first character — except for a run right after the `{`, which carries the offset of
    the `{` itself.  `{}` is one empty `.sub`; a number right after the `{` leaves no empty `.sub`. -/

mutual
/-- inside a run that started at offset `o` with the characters `s` so far; the next item is
    written at offset `off` -/
def bracedRun (o : Nat) (s : Str) (off : Nat) : List BItem → AString
  | [] => [.sub o s]
  | .chr c :: items => bracedRun o (s ++ [c.value]) (off + c.print.length) items
  | .num l :: items => .sub o s :: .num off l.value :: bracedAfterNum (off + l.print.length) items
/-- right after a number; the next item is written at offset `off` -/
def bracedAfterNum (off : Nat) : List BItem → AString
  | [] => []
  | .chr c :: items => bracedRun off [c.value] (off + c.print.length) items
  | .num l :: items => .num off l.value :: bracedAfterNum (off + l.print.length) items
end

/-- the value of `{items}` written at offset `i` -/
def bracedValue (i : Nat) : List BItem → AString
  | [] => [.sub i []]
  | .chr c :: items => bracedRun i [c.value] (i + 1 + c.print.length) items
  | .num l :: items => .num (i + 1) l.value :: bracedAfterNum (i + 1 + l.print.length) items

/-- the items in the vocabulary of the parser lemmas -/
def BItem.toPiece : BItem → BPiece
  | .chr c => .chr c.print c.value
  | .num l => .num l.print l.value

theorem printPieces_toPiece (items : List BItem) : printPieces (items.map BItem.toPiece) = printBody items := by
  induction items with
  | nil => rfl
  | cons it items ih =>
    cases it <;> simp only [List.map_cons, printPieces_cons, ih, printBody, List.flatMap_cons] <;> rfl

theorem bracketCharOk_of_ok {c : QChar} (h : c.BracedOk) : BracketCharOk c.print c.value := by
  cases c with
  | raw c => exact Or.inl ⟨rfl, h⟩
  | esc l => exact Or.inr ⟨l, rfl, rfl⟩

theorem piecesOk_of_bracedOk (rest : Str) : ∀ items : List BItem, BracedOk rest items →
    PiecesOk rest (items.map BItem.toPiece)
  | [], _ => trivial
  | .chr c :: items, h => ⟨bracketCharOk_of_ok h.1, piecesOk_of_bracedOk rest items h.2⟩
  | .num l :: items, h => ⟨by
      rw [printPieces_toPiece]; exact numberAt_of_wf l _ h.1.1 h.1.2, piecesOk_of_bracedOk rest items h.2⟩

theorem specGo_toPiece : ∀ (items : List BItem) (off : Nat),
    (∀ (o : Nat) (s : Str), s ≠ [] →
      specGo off (some (o, s)) (items.map BItem.toPiece) = bracedRun o s off items)
    ∧ specGo off none (items.map BItem.toPiece) = bracedAfterNum off items
  | [], off => ⟨fun o s _ => by simp [specGo, closeRun, bracedRun], by simp [specGo, closeRun, bracedAfterNum]⟩
  | .chr c :: items, off => by
    have ih := specGo_toPiece items (off + c.print.length)
    refine ⟨fun o s hs => ?_, ?_⟩
    · simp only [List.map_cons, BItem.toPiece, specGo, extendRun, bracedRun]
      exact ih.1 o (s ++ [c.value]) (by simp)
    · simp only [List.map_cons, BItem.toPiece, specGo, extendRun, bracedAfterNum]
      exact ih.1 off [c.value] (by simp)
  | .num l :: items, off => by
    have ih := specGo_toPiece items (off + l.print.length)
    refine ⟨fun o s hs => ?_, ?_⟩
    · cases s with
      | nil => exact absurd rfl hs
      | cons x xs => simp [BItem.toPiece, specGo, flushRun, bracedRun, ih.2]
    · simp [BItem.toPiece, specGo, flushRun, bracedAfterNum, ih.2]

theorem bracketSpec_toPiece (i : Nat) : ∀ items : List BItem,
    bracketSpec i (items.map BItem.toPiece) = bracedValue i items
  | [] => rfl
  | .chr c :: items => by
    simp only [bracketSpec, List.map_cons, BItem.toPiece, specGo, extendRun, List.nil_append, bracedValue]
    exact (specGo_toPiece items _).1 i [c.value] (by simp)
  | .num l :: items => by
    simp [bracketSpec, BItem.toPiece, specGo, flushRun, bracedValue, (specGo_toPiece items _).2]

/-- the parser lemma in the vocabulary of this file -/
theorem bracketedString_of_ok {items : List BItem} {after : Str} (hok : BracedOk after items)
    {t : Array Char} {i : Nat} (z : Bool) (h : t.toList.drop i = printBraced items ++ after) :
    bracketedString t ⟨i, z⟩ = some (bracedValue i items, ⟨i + (printBraced items).length, z⟩) := by
  have := bracketedString_pieces (t := t) (i := i) (ps := items.map BItem.toPiece) (rest := after) z
    (by simpa [printBraced, printPieces_toPiece] using h) (piecesOk_of_bracedOk after items hok)
  simpa [printBraced, printPieces_toPiece, bracketSpec_toPiece] using this

/-- **bracketed strings are recovered verbatim**, numbers and all -/
theorem braced_roundtrip (pre : Str) (items : List BItem) (rest : Str) (z : Bool) (hok : BracedOk rest items) :
    bracketedString (pre ++ printBraced items ++ rest).toArray ⟨pre.length, z⟩
      = some (bracedValue pre.length items, ⟨(pre ++ printBraced items).length, z⟩) := by
  have := bracketedString_of_ok hok (t := (pre ++ printBraced items ++ rest).toArray) (i := pre.length) z
    (by simp)
  simpa using this

/-! ### the canonical spelling -/

/-- a character as it can always be written between braces: as between quotes, and moreover the
    braces and the digits get a backslash (`\{`, `\}`, `\0` … `\9` mean the character itself) -/
def braceEscapeChar (c : Char) : Str :=
  match escapeLetter c with
  | some l => ['\\', l]
  | none => if c = '{' ∨ c = '}' ∨ isDigit c = true then ['\\', c] else [c]

def braceQuote (s : Str) : Str := '{' :: s.flatMap braceEscapeChar ++ ['}']

theorem braceEscapeChar_eq (c : Char) : braceEscapeChar c = (bracketItem c).1 := by
  have e : escapeLetter c = escLetter? c := rfl
  unfold braceEscapeChar bracketItem
  rw [e]
  cases escLetter? c
  · simp only; split <;> rfl
  · rfl

theorem flatMap_braceEscapeChar (s : Str) : s.flatMap braceEscapeChar = bracketBody s := by
  have e : braceEscapeChar = fun c => (bracketItem c).1 := funext braceEscapeChar_eq
  rw [e]; rfl

/-- **every string can be written between braces** (digits included), as one `.sub` -/
theorem braceQuote_roundtrip (pre s rest : Str) (z : Bool) :
    bracketedString (pre ++ braceQuote s ++ rest).toArray ⟨pre.length, z⟩
      = some ([.sub pre.length s], ⟨(pre ++ braceQuote s).length, z⟩) := by
  have := bracketedString_quote (t := (pre ++ braceQuote s ++ rest).toArray) (i := pre.length)
    (s := s) (rest := rest) z (by simp [braceQuote, flatMap_braceEscapeChar])
  simpa [braceQuote, flatMap_braceEscapeChar] using this

example : braceQuote "a{1}\n".toList = "{a\\{\\1\\}\\n}".toList := by decide +kernel
example : bracketedString "x{a 1/2 b3}".toList.toArray ⟨1, false⟩
    = some ([.sub 1 "a ".toList, .num 4 ⟨mkRat 1 2, .frac⟩, .sub 7 " b".toList, .num 9 ⟨3, .int⟩], ⟨11, false⟩) := by
  decide +kernel
example (l m : NumLit) :
    bracedValue 10 [.chr (.raw 'a'), .chr (.esc 'n'), .num l, .chr (.raw 'b'), .num m]
      = [.sub 10 ['a', '\n'], .num 14 l.value, .sub (14 + l.print.length) ['b'],
         .num (14 + l.print.length + 1) m.value] := rfl
example (l : NumLit) : bracedValue 10 [.num l, .chr (.raw 'b')] = [.num 11 l.value, .sub (11 + l.print.length) ['b']] := rfl
example : bracedValue 10 [] = [.sub 10 []] := rfl
/-- an instance of the theorem with a number inside: `{a12b}` -/
example : bracketedString "{a12b}".toList.toArray ⟨0, false⟩
    = some ([.sub 0 ['a'], .num 2 ⟨((12 : Nat) : Rat), .int⟩, .sub 4 ['b']], ⟨6, false⟩) :=
  braced_roundtrip [] [.chr (.raw 'a'), .num (.int ['1', '2']), .chr (.raw 'b')] [] false
    ⟨by unfold QChar.BracedOk; decide, ⟨⟨by decide, by decide⟩, by decide, by decide⟩,
      by unfold QChar.BracedOk; decide, trivial⟩

/-! ## Strings: sequences of atoms -/

/-- one atom of a string as written -/
inductive StrAtom where
  | naked (txt : Str)
  | squoted (items : List QChar)
  | dquoted (items : List QChar)
  | braced (items : List BItem)

namespace StrAtom

def print : StrAtom → Str
  | naked txt => txt
  | squoted items => printQuoted '\'' items
  | dquoted items => printQuoted '"' items
  | braced items => printBraced items

/-- the value of the atom written at offset `off` -/
def value (off : Nat) : StrAtom → AString
  | naked txt => [.sub off txt]
  | squoted items => [.sub off (items.map QChar.value)]
  | dquoted items => [.sub off (items.map QChar.value)]
  | braced items => bracedValue off items

def isNaked : StrAtom → Bool
  | naked _ => true
  | _ => false

/-- admissible atoms (`after` is the text that follows the atom; only the numbers of a bracketed
    atom care); a static string has no bracketed atoms -/
def Ok (static : Bool) (after : Str) : StrAtom → Prop
  | naked txt => IsNaked txt
  | squoted items => ∀ it ∈ items, it.Ok '\''
  | dquoted items => ∀ it ∈ items, it.Ok '"'
  | braced items => static = false ∧ BracedOk after items

end StrAtom

/-- the atoms after the first one, each with the blanks before it -/
def printMore : List (Str × StrAtom) → Str
  | [] => []
  | (bl, a) :: more => bl ++ a.print ++ printMore more

/-- a whole string: the first atom, then (blanks, atom) pairs -/
def printString (a : StrAtom) (more : List (Str × StrAtom)) : Str := a.print ++ printMore more

/-- the value of the atoms after the first one, written from offset `off` on: non-empty blanks
    are kept as a `.sub` of their own between the atoms -/
def moreValue (off : Nat) : List (Str × StrAtom) → AString
  | [] => []
  | (bl, a) :: more =>
    (if bl.isEmpty then [] else [.sub off bl]) ++ a.value (off + bl.length)
      ++ moreValue (off + bl.length + a.print.length) more

def stringValue (off : Nat) (a : StrAtom) (more : List (Str × StrAtom)) : AString :=
  a.value off ++ moreValue (off + a.print.length) more

/-- a character that ends every string: one of `,:=/()}`, a newline — and `{` in a static string -/
def EndsString (static : Bool) (c : Char) : Prop :=
  c ∈ [',', ':', '=', '/', '(', ')', '}'] ∨ isNewline c = true ∨ (static = true ∧ c = '{')

/-- what may follow a string whose last atom is naked: white space (no newline), then the end of
    the text or a character that ends every string -/
def NakedFollow (static : Bool) (rest : Str) : Prop :=
  ∃ ws rest', rest = ws ++ rest' ∧ (∀ c ∈ ws, isReSpace c = true ∧ isNewline c = false)
    ∧ ∀ c, rest'.head? = some c → EndsString static c

/-- what may follow a string whose last atom is quoted or bracketed: blanks, then the end of the
    text, or any other `\s` character, or a character that ends every string -/
def ClosedFollow (static : Bool) (rest : Str) : Prop :=
  ∃ bl rest', rest = bl ++ rest' ∧ IsBlanks bl
    ∧ ∀ c, rest'.head? = some c → isHsp c = false ∧ (isReSpace c = true ∨ EndsString static c)

def LastFollow (static : Bool) (a : StrAtom) (rest : Str) : Prop :=
  if a.isNaked = true then NakedFollow static rest else ClosedFollow static rest

/-- admissible strings: admissible atoms separated by blanks `[ \t]*`; a naked atom is followed —
    after its blanks — by an atom that is not naked (two naked atoms would read as one), or is the
    last one; what follows the last atom must end the string -/
def SeqOk (static : Bool) (rest : Str) : StrAtom → List (Str × StrAtom) → Prop
  | a, [] => a.Ok static rest ∧ LastFollow static a rest
  | a, (bl, b) :: more =>
    a.Ok static (bl ++ printString b more ++ rest) ∧ IsBlanks bl
      ∧ (a.isNaked = true → b.isNaked = false) ∧ SeqOk static rest b more

/-! ### bridges to the parser lemmas -/

theorem stopChar_of_endsString {static : Bool} {c : Char} (h : EndsString static c) : StopChar static c := by
  rcases h with h | h | ⟨rfl, rfl⟩
  · exact stopChar_of_mem h
  · exact stopChar_of_isNewline h
  · exact stopChar_lbrace_static

theorem stringEnd_of_nakedFollow {static : Bool} {rest : Str} (h : NakedFollow static rest) :
    StringEnd static rest := by
  obtain ⟨ws, rest', rfl, hws, hr⟩ := h
  exact stringEnd_of_stop (fun c hc => (hws c hc).1) (fun c hc => stopChar_of_endsString (hr c hc))

theorem stringEnd_of_closedFollow {static : Bool} {rest : Str} (h : ClosedFollow static rest) :
    StringEnd static rest := by
  obtain ⟨bl, rest', rfl, hbl, hr⟩ := h
  refine ⟨bl, rest', rfl, hbl, fun c hc => ⟨(hr c hc).1, ?_⟩⟩
  rcases (hr c hc).2 with h | h
  · exact noAtomStart_of_isReSpace h
  · exact (stopChar_of_endsString h).noAtomStart

/-- the text after a naked atom lets the naked string end where it should -/
def NakedAfter (after : Str) : Prop :=
  ∃ ws r, after = ws ++ r ∧ (∀ c ∈ ws, isReSpace c = true ∧ isNewline c = false)
    ∧ ∀ c, r.head? = some c → isNakedInner c = false

theorem atom_of_ok {static : Bool} {a : StrAtom} {after : Str} (hok : a.Ok static after)
    (hnk : a.isNaked = true → NakedAfter after) {t : Array Char} {i : Nat} (z : Bool)
    (h : t.toList.drop i = a.print ++ after) :
    atom static t ⟨i, z⟩ = some (a.value i, ⟨i + a.print.length, z⟩) := by
  cases a with
  | naked txt =>
    obtain ⟨ws, r, rfl, hws, hr⟩ := hnk rfl
    obtain ⟨hne, hin, hfst, hlst⟩ := IsNaked.model hok
    exact atom_naked z (by simpa [StrAtom.print] using h) hne hin hfst hlst hws hr
  | squoted items =>
    exact atom_squoted (rest' := items.flatMap QChar.print ++ '\'' :: after) z
      (by simpa [StrAtom.print, printQuoted] using h) (quotedString_of_ok (by decide) hok z h)
  | dquoted items =>
    exact atom_dquoted (rest' := items.flatMap QChar.print ++ '"' :: after) z
      (by simpa [StrAtom.print, printQuoted] using h) (quotedString_of_ok (by decide) hok z h)
  | braced items =>
    obtain ⟨rfl, hb⟩ := hok
    exact atom_bracketed (rest' := printBody items ++ '}' :: after) z
      (by simpa [StrAtom.print, printBraced] using h) (bracketedString_of_ok hb z h)

theorem head_print_closed {b : StrAtom} (h : b.isNaked = false) :
    ∃ c tl, b.print = c :: tl ∧ (c = '\'' ∨ c = '"' ∨ c = '{') := by
  cases b with
  | naked _ => cases h
  | squoted items => exact ⟨_, _, rfl, Or.inl rfl⟩
  | dquoted items => exact ⟨_, _, rfl, Or.inr (Or.inl rfl)⟩
  | braced items => exact ⟨_, _, rfl, Or.inr (Or.inr rfl)⟩

theorem head_print_of_ok {static : Bool} {after : Str} {b : StrAtom} (h : b.Ok static after) :
    ∃ c tl, b.print = c :: tl ∧ (isNakedEdge c = true ∨ c = '\'' ∨ c = '"' ∨ c = '{') := by
  cases hb : b.isNaked with
  | false =>
    obtain ⟨c, tl, e, hc⟩ := head_print_closed hb
    exact ⟨c, tl, e, Or.inr hc⟩
  | true =>
    cases b with
    | naked txt =>
      obtain ⟨hne, _, hfst, _⟩ := IsNaked.model h
      cases txt with
      | nil => exact absurd rfl hne
      | cons c tl => exact ⟨c, tl, rfl, Or.inl (hfst c rfl)⟩
    | squoted _ => cases hb
    | dquoted _ => cases hb
    | braced _ => cases hb

theorem SeqOk.headOk {static : Bool} {rest : Str} {b : StrAtom} {more : List (Str × StrAtom)}
    (h : SeqOk static rest b more) : ∃ after, b.Ok static after := by
  cases more with
  | nil => exact ⟨_, h.1⟩
  | cons p more => obtain ⟨bl, c⟩ := p; exact ⟨_, h.1⟩

theorem atoms_of_seqOk {static : Bool} {t : Array Char} {z : Bool} {rest : Str} :
    ∀ (more : List (Str × StrAtom)) (a : StrAtom) (i : Nat), SeqOk static rest a more →
      t.toList.drop i = printString a more ++ rest →
      Atoms static t z i (stringValue i a more) (i + (printString a more).length) := by
  intro more
  induction more with
  | nil =>
    intro a i hok h
    have h' : t.toList.drop i = a.print ++ rest := by simpa [printString, printMore] using h
    have e1 : stringValue i a [] = a.value i := by simp [stringValue, moreValue]
    have e2 : i + (printString a []).length = i + a.print.length := by simp [printString, printMore]
    rw [e1, e2]
    obtain ⟨hok, hf⟩ := hok
    unfold LastFollow at hf
    cases hn : a.isNaked with
    | true =>
      rw [if_pos hn] at hf
      have hse := stringEnd_of_nakedFollow hf
      obtain ⟨ws, rest', e, hws, hr⟩ := hf
      exact Atoms.last
        (atom_of_ok hok (fun _ => ⟨ws, rest', e, hws, fun c hc => (stopChar_of_endsString (hr c hc)).1⟩) z h')
        (drop_add_of_drop h') hse
    | false =>
      rw [if_neg (by simp [hn])] at hf
      exact Atoms.last (atom_of_ok hok (fun hn' => by rw [hn] at hn'; cases hn') z h')
        (drop_add_of_drop h') (stringEnd_of_closedFollow hf)
  | cons p m ih =>
    obtain ⟨bl, b⟩ := p
    intro a i hok h
    obtain ⟨hoka, hbl, hnn, hrest⟩ := hok
    have h' : t.toList.drop i = a.print ++ (bl ++ printString b m ++ rest) := by
      simpa [printString, printMore, List.append_assoc] using h
    obtain ⟨after', hokb⟩ := hrest.headOk
    obtain ⟨c, tl, eb, hc⟩ := head_print_of_ok hokb
    have hhead : (printString b m ++ rest).head? = some c := by simp [printString, eb]
    have ha := atom_of_ok hoka (fun hn => by
      refine ⟨bl, printString b m ++ rest, by simp, fun x hx =>
        ⟨isReSpace_of_isHsp (hbl x hx), isNewline_of_isHsp (hbl x hx)⟩, ?_⟩
      obtain ⟨c', tl', eb', hc'⟩ := head_print_closed (hnn hn)
      intro x hx
      simp only [printString, eb', List.cons_append, List.head?_cons, Option.some.injEq] at hx
      subst hx
      rcases hc' with rfl | rfl | rfl <;> decide) z h'
    have h1 : t.toList.drop (i + a.print.length) = bl ++ (printString b m ++ rest) := by
      have := drop_add_of_drop h'
      simpa [List.append_assoc] using this
    have h2 := drop_add_of_drop h1
    have ihb := ih b (i + a.print.length + bl.length) hrest h2
    have hA := Atoms.cons ha h1 hbl
      (fun x hx => by rw [hhead] at hx; cases hx; exact isHsp_of_atom_start hc) ihb
    have e1 : stringValue i a ((bl, b) :: m)
        = a.value i ++ if bl.isEmpty then stringValue (i + a.print.length + bl.length) b m
            else .sub (i + a.print.length) bl :: stringValue (i + a.print.length + bl.length) b m := by
      simp only [stringValue, moreValue]
      split <;> simp
    have e2 : i + (printString a ((bl, b) :: m)).length
        = i + a.print.length + bl.length + (printString b m).length := by
      simp only [printString, printMore, List.length_append]; omega
    rw [e1, e2]
    exact hA

/-- **strings are recovered verbatim**: every admissible sequence of atoms, with the blanks
    between them -/
theorem string_roundtrip (static : Bool) (pre : Str) (a : StrAtom) (more : List (Str × StrAtom))
    (rest : Str) (z : Bool) (hok : SeqOk static rest a more) :
    string static (pre ++ printString a more ++ rest).toArray ⟨pre.length, z⟩
      = some (stringValue pre.length a more, ⟨(pre ++ printString a more).length, z⟩) := by
  have := string_of_atoms (atoms_of_seqOk (t := (pre ++ printString a more ++ rest).toArray) (z := z)
    more a pre.length hok (by simp))
  simpa using this

/-- a single naked string -/
theorem string_naked_roundtrip (static : Bool) (pre txt rest : Str) (z : Bool) (h : IsNaked txt)
    (hf : NakedFollow static rest) :
    string static (pre ++ txt ++ rest).toArray ⟨pre.length, z⟩
      = some ([.sub pre.length txt], ⟨(pre ++ txt).length, z⟩) := by
  have := string_roundtrip static pre (.naked txt) [] rest z ⟨h, by simpa [LastFollow, StrAtom.isNaked] using hf⟩
  simpa [printString, printMore, stringValue, moreValue, StrAtom.print, StrAtom.value] using this

/-- a single quoted string in the canonical spelling: every `s` at all -/
theorem string_quote_roundtrip (static : Bool) (q : Char) (hq : q = '\'' ∨ q = '"') (pre s rest : Str)
    (z : Bool) (hf : ClosedFollow static rest) :
    string static (pre ++ quote q s ++ rest).toArray ⟨pre.length, z⟩
      = some ([.sub pre.length s], ⟨(pre ++ quote q s).length, z⟩) := by
  have := string_quote (static := static) (q := q) hq (t := (pre ++ quote q s ++ rest).toArray)
    (i := pre.length) (s := s) (rest := rest) z (by simp [quote, flatMap_escapeChar])
    (stringEnd_of_closedFollow hf)
  simpa [quote, flatMap_escapeChar] using this

/-- a single bracketed string in the canonical spelling: every `s` at all -/
theorem string_braceQuote_roundtrip (pre s rest : Str) (z : Bool) (hf : ClosedFollow false rest) :
    string false (pre ++ braceQuote s ++ rest).toArray ⟨pre.length, z⟩
      = some ([.sub pre.length s], ⟨(pre ++ braceQuote s).length, z⟩) := by
  have := string_bracket_quote (t := (pre ++ braceQuote s ++ rest).toArray)
    (i := pre.length) (s := s) (rest := rest) z (by simp [braceQuote, flatMap_braceEscapeChar])
    (stringEnd_of_closedFollow hf)
  simpa [braceQuote, flatMap_braceEscapeChar] using this

/-! ### examples -/

example : string false "x 'y'{z} ,".toList.toArray ⟨0, false⟩
    = some ([.sub 0 ['x'], .sub 1 [' '], .sub 2 ['y'], .sub 5 ['z']], ⟨8, false⟩) := by decide +kernel
/-- a static string stops in front of a brace -/
example : string true "x{z}".toList.toArray ⟨0, false⟩ = some ([.sub 0 ['x']], ⟨1, false⟩) := by
  decide +kernel
/-- two naked words are one naked string -/
example : string false "a b".toList.toArray ⟨0, false⟩ = some ([.sub 0 "a b".toList], ⟨3, false⟩) := by
  decide +kernel

example : printString (.naked ['x']) [([' '], .squoted [.raw 'y']), ([], .braced [.chr (.raw 'z')])]
    = "x 'y'{z}".toList := by decide +kernel
example : stringValue 3 (.naked ['x']) [([' '], .squoted [.raw 'y']), ([], .braced [.chr (.raw 'z')])]
    = [.sub 3 ['x'], .sub 4 [' '], .sub 5 ['y'], .sub 8 ['z']] := rfl

/-- the admissibility conditions are satisfiable: `x 'y'{z}` followed by ` ,` -/
theorem seqOk_example : SeqOk false " ,".toList (.naked ['x'])
    [([' '], .squoted [.raw 'y']), ([], .braced [.chr (.raw 'z')])] := by
  refine ⟨⟨by decide, by decide, by decide, by decide⟩, by unfold IsBlanks; decide, fun _ => rfl, ?_⟩
  refine ⟨?_, by unfold IsBlanks; decide, (fun h => by cases h), ⟨rfl, ?_, trivial⟩, ?_⟩
  · intro it hit; simp only [List.mem_singleton] at hit; subst hit; exact ⟨by decide, by decide, by decide⟩
  · exact ⟨by decide, by decide, by decide, by decide, by decide⟩
  · exact ⟨[' '], [','], rfl, by unfold IsBlanks; decide, fun c hc => by
      cases hc; exact ⟨by decide, Or.inr (Or.inl (by decide))⟩⟩

/-- … and the theorem applies to it, after any prefix -/
example (pre : Str) (z : Bool) :
    string false (pre ++ "x 'y'{z}".toList ++ " ,".toList).toArray ⟨pre.length, z⟩
      = some ([.sub pre.length ['x'], .sub (pre.length + 1) [' '], .sub (pre.length + 1 + 1) ['y'],
               .sub (pre.length + 1 + 1 + 3) ['z']], ⟨(pre ++ "x 'y'{z}".toList).length, z⟩) :=
  string_roundtrip false pre (.naked ['x']) [([' '], .squoted [.raw 'y']), ([], .braced [.chr (.raw 'z')])]
    " ,".toList z seqOk_example

example : string true "flour , x".toList.toArray ⟨0, false⟩ = some ([.sub 0 "flour".toList], ⟨0 + 5, false⟩) := by
  have := string_naked_roundtrip true [] "flour".toList " , x".toList false
    ⟨by decide, by decide, by decide, by decide⟩
    ⟨[' '], ", x".toList, rfl, by decide, fun c hc => by cases hc; exact Or.inl (by decide)⟩
  simpa using this

example : string false (quote '\'' "it's".toList ++ ['\n']).toArray ⟨0, false⟩
    = some ([.sub 0 "it's".toList], ⟨(quote '\'' "it's".toList).length, false⟩) := by
  have := string_quote_roundtrip false '\'' (Or.inl rfl) [] "it's".toList ['\n'] false
    ⟨[], ['\n'], rfl, by simp [IsBlanks], fun c hc => by cases hc; exact ⟨by decide, Or.inl (by decide)⟩⟩
  simpa using this

/-! ## Layer 4: known units (also C12.4: every unit name, in any letter case, is recognised) -/

/-- a word as written: each letter in lower (`false`) or upper (`true`) case -/
def caseWord (w : Str) (upper : List Bool) : Str :=
  List.zipWith (fun l up => if up then l.toUpper else l) w upper

/-- a spelling of a unit name with the words `ws`: for each word the case of each of its letters,
    and the separators between consecutive words -/
def printUnit : List Str → List (List Bool) → List Str → Str
  | [], _, _ => []
  | [w], ms, _ => caseWord w (ms.headD [])
  | w :: ws, ms, seps => caseWord w (ms.headD []) ++ seps.headD [] ++ printUnit ws ms.tail seps.tail

/-- permitted spellings: one case choice per letter, and between two words one or more `\s` characters -/
def UnitSpellingOk : List Str → List (List Bool) → List Str → Prop
  | [w], [m], [] => m.length = w.length
  | w :: w2 :: ws, m :: ms, s :: seps =>
      m.length = w.length ∧ s ≠ [] ∧ IsSpaces s ∧ UnitSpellingOk (w2 :: ws) ms seps
  | _, _, _ => False

/-- the side conditions on the table of unit names, re-checked by the kernel whenever the table is
    regenerated: the words are non-empty runs of ASCII lower-case letters, and no alternative's word
    list is a proper prefix of another alternative's (within a word the `\b` rejects the shorter name;
    a whole-word prefix such as `tea` before `tea spoon` would not be rejected) -/
theorem unitPatterns_sideConditions :
    Parser.unitPatterns.all unitWordsOk = true ∧ prefixFree Parser.unitPatterns = true := by
  constructor <;> decide +kernel

theorem caseVariant_caseWord (w : Str) (m : List Bool) (h : m.length = w.length) :
    CaseVariant w (caseWord w m) := by
  induction w generalizing m with
  | nil => cases m with
    | nil => exact .nil
    | cons _ _ => simp at h
  | cons l w ih =>
    cases m with
    | nil => simp at h
    | cons b m =>
      simp only [caseWord, List.zipWith_cons_cons]
      refine .cons ?_ (ih m (by simpa using h))
      cases b
      · exact Or.inl (by simp)
      · exact Or.inr (by simp)

theorem unitText_printUnit : ∀ (ws : List Str) (ms : List (List Bool)) (seps : List Str),
    UnitSpellingOk ws ms seps → UnitText ws (printUnit ws ms seps)
  | [], _, _, h => by simp [UnitSpellingOk] at h
  | [w], [], _, h => by simp [UnitSpellingOk] at h
  | [w], [m], [], h => .one (caseVariant_caseWord w m h)
  | [w], [m], _ :: _, h => by simp [UnitSpellingOk] at h
  | [w], _ :: _ :: _, _, h => by simp [UnitSpellingOk] at h
  | w :: w2 :: ws, [], _, h => by simp [UnitSpellingOk] at h
  | w :: w2 :: ws, _ :: _, [], h => by simp [UnitSpellingOk] at h
  | w :: w2 :: ws, m :: ms, s :: seps, h => by
    obtain ⟨hm, hsne, hs, hrest⟩ := h
    exact .cons (caseVariant_caseWord w m hm) hsne hs (by simp) (unitText_printUnit (w2 :: ws) ms seps hrest)

/-- **every spelling of every unit name is recognised, and the longest name wins**: for each
    alternative of the unit pattern, each choice of letter case and each choice of `\s+` separators,
    `known_unit` consumes exactly that text when a non-word character (or nothing) follows -/
theorem knownUnit_roundtrip (pre rest : Str) (z : Bool) (name : List String) (hname : name ∈ Gen.unitPatterns)
    (ms : List (List Bool)) (seps : List Str) (hok : UnitSpellingOk (name.map String.toList) ms seps)
    (hr : NextNot isReWord rest) :
    knownUnit (pre ++ printUnit (name.map String.toList) ms seps ++ rest).toArray ⟨pre.length, z⟩
      = some ((), ⟨(pre ++ printUnit (name.map String.toList) ms seps).length, z⟩) := by
  have hmem : name.map String.toList ∈ Parser.unitPatterns := List.mem_map_of_mem hname
  have := knownUnit_text hmem (unitText_printUnit _ ms seps hok) z
    (t := (pre ++ printUnit (name.map String.toList) ms seps ++ rest).toArray) (i := pre.length)
    (rest := rest) (by simp) hr
  simpa using this

example : knownUnit "2 Table \n SPOONS, heaped".toList.toArray ⟨2, false⟩ = some ((), ⟨16, false⟩) := by
  decide +kernel
example : printUnit ["table".toList, "spoons".toList]
    [[true, false, false, false, false], [true, true, true, true, true, true]] [" \n ".toList]
    = "Table \n SPOONS".toList := by decide +kernel
/-- "g" is listed before "grams"; the word boundary makes the longer name win -/
example : knownUnit "grams".toList.toArray ⟨0, false⟩ = some ((), ⟨5, false⟩) := by decide +kernel
/-- a word character after the name: no unit -/
example : knownUnit "gramsx".toList.toArray ⟨0, false⟩ = none := by decide +kernel

/-! ## Layer 5: prepositions, amounts, references -/

/-! ### regex fragments read on the text (follow conditions) -/

/-- `s` starts with the literal `w` under `(?i)` -/
def startsWithCI : Str → Str → Bool
  | [], _ => true
  | _ :: _, [] => false
  | l :: w, c :: s => ciMatches c l && startsWithCI w s

/-- regex `w\b` matches at the start of `s` (for a word `w` of letters) -/
def wordAt (w s : Str) : Bool := startsWithCI w s && !((s.drop w.length).head?.any isReWord)

/-- regex `[ \t]+w\b` matches at the start of `s` -/
def blanksWordAt (w s : Str) : Bool := s.head?.any isHsp && wordAt w (s.dropWhile isHsp)

/-- regex `(remaining|remainder|rest|left[ \t]*over)\b` matches at the start of `s` -/
def remainderWordAt (s : Str) : Bool :=
  wordAt "remaining".toList s || wordAt "remainder".toList s || wordAt "rest".toList s
  || (startsWithCI "left".toList s && wordAt "over".toList ((s.drop 4).dropWhile isHsp))

/-- one alternative of the unit regex (words joined by `\s+`, then `\b`) matches at the start of `s` -/
def unitWordsAt : List Str → Str → Bool
  | [], _ => false
  | [w], s => wordAt w s
  | w :: w2 :: ws, s => startsWithCI w s &&
      ((s.drop w.length).head?.any isReSpace &&
        unitWordsAt (w2 :: ws) ((s.drop w.length).dropWhile isReSpace))

/-- some unit name matches at the start of `s` -/
def unitNameAt (s : Str) : Bool := Gen.unitPatterns.any fun name => unitWordsAt (name.map String.toList) s

theorem startsWithCI_eq : ∀ (w s : Str), startsWithCI w s = ciPrefix w s
  | [], _ => rfl
  | _ :: _, [] => rfl
  | l :: w, c :: s => by simp only [startsWithCI, ciPrefix, startsWithCI_eq w s]

theorem wordAt_eq (w s : Str) : wordAt w s = ciWordAt w s := by
  simp only [wordAt, ciWordAt, startsWithCI_eq]

theorem blanksWordAt_eq (w s : Str) : blanksWordAt w s = hspWordAt w s := by
  simp only [blanksWordAt, hspWordAt, wordAt_eq]

theorem unitWordsAt_eq : ∀ (ws : List Str) (s : Str), unitWordsAt ws s = patMatch ws s
  | [], _ => rfl
  | [w], s => by simp only [unitWordsAt, patMatch, wordAt_eq]
  | w :: w2 :: ws, s => by
    simp only [unitWordsAt, patMatch, startsWithCI_eq, unitWordsAt_eq (w2 :: ws)]

theorem unitNameAt_eq (s : Str) : unitNameAt s = unitAt s := by
  simp only [unitNameAt, unitAt, Parser.unitPatterns, List.any_map, unitWordsAt_eq]
  rfl

theorem remainderWordAt_eq (s : Str) : remainderWordAt s = (remainderLen s).isSome := by
  have hl : (startsWithCI "left".toList s && wordAt "over".toList ((s.drop 4).dropWhile isHsp)) = leftOverAt s := by
    simp only [leftOverAt, wordAt_eq, startsWithCI_eq]; rfl
  have e1 : wordAt "remaining".toList s = ciWordAt wRemaining s := wordAt_eq _ _
  have e2 : wordAt "remainder".toList s = ciWordAt wRemainder s := wordAt_eq _ _
  have e3 : wordAt "rest".toList s = ciWordAt wRest s := wordAt_eq _ _
  simp only [remainderWordAt, remainderLen, hl, e1, e2, e3]
  split
  · simp [*]
  · split
    · simp [*]
    · split
      · simp [*]
      · split <;> simp_all

/-! ### prepositions -/

/-- the optional preposition after an amount, as written (`m`, `m2`: the case of each letter) -/
inductive PrepLit where
  | none
  /-- blanks, "of" -/
  | of (bl : Str) (m : List Bool)
  /-- blanks, "of", blanks, "the" -/
  | ofThe (bl : Str) (m : List Bool) (bl2 : Str) (m2 : List Bool)

namespace PrepLit

def print : PrepLit → Str
  | none => []
  | of bl m => bl ++ caseWord "of".toList m
  | ofThe bl m bl2 m2 => bl ++ caseWord "of".toList m ++ bl2 ++ caseWord "the".toList m2

def WF : PrepLit → Prop
  | none => True
  | of bl m => bl ≠ [] ∧ IsBlanks bl ∧ m.length = 2
  | ofThe bl m bl2 m2 => bl ≠ [] ∧ IsBlanks bl ∧ m.length = 2 ∧ bl2 ≠ [] ∧ IsBlanks bl2 ∧ m2.length = 3

/-- what may follow: no preposition is taken only where the text does not go on with `[ \t]+of\b`;
    "of" is taken only where no `[ \t]+the\b` follows; and the word must end -/
def Follow : PrepLit → Str → Prop
  | none, rest => blanksWordAt "of".toList rest = false
  | of _ _, rest => NextNot isReWord rest ∧ blanksWordAt "the".toList rest = false
  | ofThe _ _ _ _, rest => NextNot isReWord rest

end PrepLit

theorem prepAt_of_wf (p : PrepLit) (rest : Str) (h : p.WF) (hf : p.Follow rest) : PrepAt p.print rest := by
  cases p with
  | none =>
    exact prepAt_nil (by rw [← blanksWordAt_eq]; exact hf)
  | of bl m =>
    obtain ⟨hne, hbl, hm⟩ := h
    exact prepAt_of hne hbl (caseVariant_caseWord _ m hm) hf.1 (by rw [← blanksWordAt_eq]; exact hf.2)
  | ofThe bl m bl2 m2 =>
    obtain ⟨hne, hbl, hm, hne2, hbl2, hm2⟩ := h
    exact prepAt_of_the hne hbl (caseVariant_caseWord _ m hm) hne2 hbl2 (caseVariant_caseWord _ m2 hm2) hf

/-- **prepositions are recovered verbatim** (`(hsp preposition)?` returns the text it took) -/
theorem hspPreposition_roundtrip (pre : Str) (p : PrepLit) (rest : Str) (z : Bool) (h : p.WF) (hf : p.Follow rest) :
    hspPreposition (pre ++ p.print ++ rest).toArray ⟨pre.length, z⟩
      = some (p.print, ⟨(pre ++ p.print).length, z⟩) := by
  have := prepAt_of_wf p rest h hf (pre ++ p.print ++ rest).toArray pre.length z (by simp)
  simpa using this

/-! ### the remainder words -/

inductive RemainderLit where
  | remaining (m : List Bool)
  | remainder (m : List Bool)
  | rest (m : List Bool)
  /-- "left", optional blanks, "over" -/
  | leftOver (m1 : List Bool) (bl : Str) (m2 : List Bool)

namespace RemainderLit

def print : RemainderLit → Str
  | remaining m => caseWord "remaining".toList m
  | remainder m => caseWord "remainder".toList m
  | rest m => caseWord "rest".toList m
  | leftOver m1 bl m2 => caseWord "left".toList m1 ++ bl ++ caseWord "over".toList m2

def WF : RemainderLit → Prop
  | remaining m => m.length = 9
  | remainder m => m.length = 9
  | rest m => m.length = 4
  | leftOver m1 bl m2 => m1.length = 4 ∧ IsBlanks bl ∧ m2.length = 4

end RemainderLit

theorem remainderAt_of_wf (w : RemainderLit) (rest : Str) (h : w.WF) (hf : NextNot isReWord rest) :
    RemainderAt w.print rest := by
  cases w with
  | remaining m => exact remainderAt_remaining (caseVariant_caseWord _ m h) hf
  | remainder m => exact remainderAt_remainder (caseVariant_caseWord _ m h) hf
  | rest m => exact remainderAt_rest (caseVariant_caseWord _ m h) hf
  | leftOver m1 bl m2 =>
    exact remainderAt_leftOver (caseVariant_caseWord _ m1 h.1) h.2.1 (caseVariant_caseWord _ m2 h.2.2) hf

/-- `remainder` on every spelling of the remainder words, before a non-word character -/
theorem remainder_roundtrip (pre : Str) (w : RemainderLit) (rest : Str) (z : Bool) (h : w.WF)
    (hf : NextNot isReWord rest) :
    Parser.remainder (pre ++ w.print ++ rest).toArray ⟨pre.length, z⟩
      = some ((), ⟨(pre ++ w.print).length, z⟩) := by
  have := (remainderAt_of_wf w rest h hf).run (t := (pre ++ w.print ++ rest).toArray) (i := pre.length) z (by simp)
  simpa using this

/-! ### amounts -/

/-- a unit name as written: which alternative, the case of every letter, the `\s+` between the words -/
structure UnitLit where
  name : List String
  ms : List (List Bool)
  seps : List Str

def UnitLit.print (u : UnitLit) : Str := printUnit (u.name.map String.toList) u.ms u.seps
def UnitLit.WF (u : UnitLit) : Prop :=
  u.name ∈ Gen.unitPatterns ∧ UnitSpellingOk (u.name.map String.toList) u.ms u.seps

/-- a whole `string` as written: the first atom and the further (blanks, atom) pairs -/
structure StringLit where
  first : StrAtom
  more : List (Str × StrAtom)

def StringLit.print (s : StringLit) : Str := printString s.first s.more
def StringLit.value (off : Nat) (s : StringLit) : AString := stringValue off s.first s.more
def StringLit.Ok (static : Bool) (rest : Str) (s : StringLit) : Prop := SeqOk static rest s.first s.more

/-- the spellings of an amount -/
inductive AmountLit where
  /-- `remaining`, `rest of the`, … -/
  | remainder (w : RemainderLit) (prep : PrepLit)
  /-- `1/2 of`, `2 of the` -/
  | ofNumber (n : NumLit) (prep : PrepLit)
  /-- `50%`, `50 % of the` -/
  | percent (n : NumLit) (bl : Str) (prep : PrepLit)
  /-- `0.5 *` -/
  | times (n : NumLit) (bl : Str)
  /-- `{2}`, `{ 2 large } of` -/
  | explicit (b1 : Str) (n : NumLit) (unit : Option (Str × StringLit)) (b3 : Str) (prep : PrepLit)
  /-- `2`, `100g`, `1 1/2 Table Spoons of the` -/
  | implicit (n : NumLit) (unit : Option (Str × UnitLit × PrepLit))

namespace AmountLit

def print : AmountLit → Str
  | remainder w p => w.print ++ p.print
  | ofNumber n p => n.print ++ p.print
  | percent n bl p => n.print ++ bl ++ '%' :: p.print
  | times n bl => n.print ++ bl ++ ['*']
  | explicit b1 n none b3 p => '{' :: b1 ++ n.print ++ b3 ++ '}' :: p.print
  | explicit b1 n (some (b2, u)) b3 p => '{' :: b1 ++ n.print ++ b2 ++ u.print ++ b3 ++ '}' :: p.print
  | implicit n none => n.print
  | implicit n (some (sp, u, p)) => n.print ++ sp ++ u.print ++ p.print

/-- the expected `ast.Quantity` / `ast.Proportion` for the amount written at offset `off` -/
def value (off : Nat) : AmountLit → AAmount
  | remainder w p => .prop off none false (some w.print) p.print
  | ofNumber n p => .prop off (some n.value) false none p.print
  | percent n bl p => .prop off (n.value.div (Num.ofNat 100)) true none (bl ++ '%' :: p.print)
  | times n bl => .prop off (some n.value) false none (bl ++ ['*'])
  | explicit _ n none _ p => .qty off n.value none [] p.print
  | explicit b1 n (some (b2, u)) _ p =>
    .qty off n.value (some (u.value (off + 1 + b1.length + n.print.length + b2.length))) b2 p.print
  | implicit n none => .qty off n.value none [] []
  | implicit n (some (sp, u, p)) =>
    .qty off n.value (some [.sub (off + n.print.length + sp.length) u.print]) sp p.print

/-- permitted spellings and what may follow them (`rest`), rule by rule -/
def Ok (rest : Str) : AmountLit → Prop
  | remainder w p => w.WF ∧ p.WF ∧ p.Follow rest ∧ NextNot isReWord rest
  | ofNumber n p => n.WF ∧ n.Follow (p.print ++ rest) ∧ p.print ≠ [] ∧ p.WF ∧ p.Follow rest
  | percent n bl p => n.WF ∧ n.Follow (bl ++ '%' :: p.print ++ rest) ∧ IsBlanks bl ∧ p.WF ∧ p.Follow rest
  | times n bl => n.WF ∧ n.Follow (bl ++ '*' :: rest) ∧ IsBlanks bl
  | explicit b1 n none b3 p =>
    IsBlanks b1 ∧ n.WF ∧ n.Follow (b3 ++ '}' :: p.print ++ rest) ∧ IsBlanks b3 ∧ p.WF ∧ p.Follow rest
  | explicit b1 n (some (b2, u)) b3 p =>
    IsBlanks b1 ∧ n.WF ∧ n.Follow (b2 ++ u.print ++ b3 ++ '}' :: p.print ++ rest) ∧ IsBlanks b2
      ∧ u.Ok true (b3 ++ '}' :: p.print ++ rest) ∧ IsBlanks b3 ∧ p.WF ∧ p.Follow rest
  | implicit n none => n.WF ∧ n.Follow rest ∧ unitNameAt (rest.dropWhile isHsp) = false
  | implicit n (some (sp, u, p)) =>
    n.WF ∧ n.Follow (sp ++ u.print ++ p.print ++ rest) ∧ IsBlanks sp ∧ u.WF ∧ p.WF ∧ p.Follow rest
      ∧ NextNot isReWord rest

end AmountLit

theorem stringAt_of_ok (static : Bool) (s : StringLit) (rest : Str) (h : s.Ok static rest) :
    StringAt static s.print rest (fun off => s.value off) := by
  intro t i z ht
  exact string_of_atoms (atoms_of_seqOk s.more s.first i h ht)

theorem StringLit.head_not_blank {static : Bool} {s : StringLit} {rest : Str} (h : s.Ok static rest) (x : Str) :
    ∀ c, (s.print ++ x).head? = some c → isHsp c = false := by
  obtain ⟨after, hok⟩ := SeqOk.headOk h
  obtain ⟨c, tl, e, hc⟩ := head_print_of_ok hok
  intro d hd
  simp only [StringLit.print, printString, e, List.cons_append, List.head?_cons, Option.some.injEq] at hd
  subst hd
  exact isHsp_of_atom_start hc

/-- `proportion` on its four kinds of spellings -/
theorem proportion_roundtrip (pre : Str) (a : AmountLit) (rest : Str) (z : Bool) (h : a.Ok rest)
    (hk : match a with | .explicit .. => False | .implicit .. => False | _ => True) :
    proportion (pre ++ a.print ++ rest).toArray ⟨pre.length, z⟩
      = some (a.value pre.length, ⟨(pre ++ a.print).length, z⟩) := by
  cases a with
  | remainder w p =>
    obtain ⟨hw, hp, hpf, hr⟩ := h
    have hP := prepAt_of_wf p rest hp hpf
    have := proportion_remainder (remainderAt_of_wf w (p.print ++ rest) hw (hP.head_not_word hr)) hP z
      (t := (pre ++ (w.print ++ p.print) ++ rest).toArray) (i := pre.length) (by simp)
    simpa [AmountLit.print, AmountLit.value] using this
  | ofNumber n p =>
    obtain ⟨hn, hnf, hne, hp, hpf⟩ := h
    have hN := numberAt_of_wf n (p.print ++ rest) hn hnf
    have ht : ((pre ++ (n.print ++ p.print) ++ rest).toArray).toList.drop pre.length
        = n.print ++ (p.print ++ rest) := by simp
    have h1 := proportion_number hN z ht
    have h2 := proportionTail_of (prepAt_of_wf p rest hp hpf) hne pre.length n.value z (drop_add_of_drop ht)
    rw [h2] at h1
    simpa [AmountLit.print, AmountLit.value, Nat.add_assoc] using h1
  | percent n bl p =>
    obtain ⟨hn, hnf, hbl, hp, hpf⟩ := h
    have hN := numberAt_of_wf n (bl ++ '%' :: p.print ++ rest) hn hnf
    have ht : ((pre ++ (n.print ++ bl ++ '%' :: p.print) ++ rest).toArray).toList.drop pre.length
        = n.print ++ (bl ++ '%' :: p.print ++ rest) := by simp
    have h1 := proportion_number hN z ht
    have h2 := proportionTail_percent hbl (prepAt_of_wf p rest hp hpf) pre.length n.value z (drop_add_of_drop ht)
    rw [h2] at h1
    simpa [AmountLit.print, AmountLit.value, Nat.add_assoc] using h1
  | times n bl =>
    obtain ⟨hn, hnf, hbl⟩ := h
    have hN := numberAt_of_wf n (bl ++ '*' :: rest) hn hnf
    have ht : ((pre ++ (n.print ++ bl ++ ['*']) ++ rest).toArray).toList.drop pre.length
        = n.print ++ (bl ++ '*' :: rest) := by simp
    have h1 := proportion_number hN z ht
    have h2 := proportionTail_star hbl pre.length n.value z (drop_add_of_drop ht)
    rw [h2] at h1
    simpa [AmountLit.print, AmountLit.value, Nat.add_assoc] using h1
  | explicit b1 n u b3 p => exact absurd hk (by simp)
  | implicit n u => exact absurd hk (by simp)

/-- `explicit_quantity` on `{ number }` and `{ number unit }`, with the optional preposition -/
theorem explicitQuantity_roundtrip (pre : Str) (b1 : Str) (n : NumLit) (unit : Option (Str × StringLit))
    (b3 : Str) (p : PrepLit) (rest : Str) (z : Bool) (h : (AmountLit.explicit b1 n unit b3 p).Ok rest) :
    explicitQuantity (pre ++ (AmountLit.explicit b1 n unit b3 p).print ++ rest).toArray ⟨pre.length, z⟩
      = some ((AmountLit.explicit b1 n unit b3 p).value pre.length,
              ⟨(pre ++ (AmountLit.explicit b1 n unit b3 p).print).length, z⟩) := by
  cases unit with
  | none =>
    obtain ⟨hb1, hn, hnf, hb3, hp, hpf⟩ := h
    have := explicitQuantity_bare hb1 (numberAt_of_wf n _ hn hnf) hb3 (prepAt_of_wf p rest hp hpf) z
      (t := (pre ++ ('{' :: b1 ++ n.print ++ b3 ++ '}' :: p.print) ++ rest).toArray) (i := pre.length) (by simp)
    simpa [AmountLit.print, AmountLit.value] using this
  | some bu =>
    obtain ⟨b2, u⟩ := bu
    obtain ⟨hb1, hn, hnf, hb2, hu, hb3, hp, hpf⟩ := h
    have := explicitQuantity_unit hb1 (numberAt_of_wf n _ hn hnf) hb2 (stringAt_of_ok true u _ hu)
      (StringLit.head_not_blank hu _) hb3 (prepAt_of_wf p rest hp hpf) z
      (t := (pre ++ ('{' :: b1 ++ n.print ++ b2 ++ u.print ++ b3 ++ '}' :: p.print) ++ rest).toArray)
      (i := pre.length) (by simp)
    simpa [AmountLit.print, AmountLit.value] using this

theorem unitText_of_wf (u : UnitLit) (h : u.WF) :
    u.name.map String.toList ∈ Parser.unitPatterns ∧ UnitText (u.name.map String.toList) u.print :=
  ⟨List.mem_map_of_mem h.1, unitText_printUnit _ u.ms u.seps h.2⟩

/-- `implicit_quantity` on a number, optionally followed by a known unit and a preposition -/
theorem implicitQuantity_roundtrip (pre : Str) (n : NumLit) (unit : Option (Str × UnitLit × PrepLit))
    (rest : Str) (z : Bool) (h : (AmountLit.implicit n unit).Ok rest) :
    implicitQuantity (pre ++ (AmountLit.implicit n unit).print ++ rest).toArray ⟨pre.length, z⟩
      = some ((AmountLit.implicit n unit).value pre.length,
              ⟨(pre ++ (AmountLit.implicit n unit).print).length, z⟩) := by
  cases unit with
  | none =>
    obtain ⟨hn, hnf, hu⟩ := h
    have := implicitQuantity_bare (numberAt_of_wf n rest hn hnf) (by rw [← unitNameAt_eq]; exact hu) z
      (t := (pre ++ n.print ++ rest).toArray) (i := pre.length) (by simp)
    simpa [AmountLit.print, AmountLit.value] using this
  | some sup =>
    obtain ⟨sp, u, p⟩ := sup
    obtain ⟨hn, hnf, hsp, hu, hp, hpf, hr⟩ := h
    obtain ⟨hmem, hU⟩ := unitText_of_wf u hu
    have := implicitQuantity_unit (numberAt_of_wf n _ hn hnf) hsp hmem hU (prepAt_of_wf p rest hp hpf) hr z
      (t := (pre ++ (n.print ++ sp ++ u.print ++ p.print) ++ rest).toArray) (i := pre.length) (by simp)
    simpa [AmountLit.print, AmountLit.value] using this

/-! ### the ordered choice `proportion / explicit_quantity / implicit_quantity` and references -/

/-- besides `Ok`: a bare number is only an implicit quantity where `proportion` does not take it,
    i.e. where neither `[ \t]+of\b` nor (after optional blanks) `%` or `*` follows -/
def AmountLit.Reached (rest : Str) : AmountLit → Prop
  | .implicit _ none => blanksWordAt "of".toList rest = false ∧
      ∀ c, (rest.dropWhile isHsp).head? = some c → c ≠ '%' ∧ c ≠ '*'
  | _ => True

/-- **amounts are recovered verbatim**: the ordered choice of `reference` takes every permitted
    spelling of an amount as that amount -/
theorem amountAt_of_ok (a : AmountLit) (rest : Str) (h : a.Ok rest) (hr : a.Reached rest) :
    AmountAt a.print rest (fun off => a.value off) := by
  -- restate the rule-level round trips for an arbitrary text
  intro t i z ht
  have hi : i ≤ t.size ∨ a.print ++ rest = [] := by
    rcases Nat.le_total i t.size with h1 | h1
    · exact Or.inl h1
    · right; rw [← ht]; simp [h1]
  have htxt : a.print ≠ [] := by
    cases a with
    | remainder w p =>
      cases w <;> simp [AmountLit.print, RemainderLit.print, caseWord] <;>
        (simp only [AmountLit.Ok, RemainderLit.WF] at h; intro hh; simp_all)
    | ofNumber n p => simp only [AmountLit.Ok] at h; simp [AmountLit.print, h.2.2.1]
    | percent n bl p => simp [AmountLit.print]
    | times n bl => simp [AmountLit.print]
    | explicit b1 n u b3 p => cases u with
      | none => simp [AmountLit.print]
      | some bu => obtain ⟨b2, u⟩ := bu; simp [AmountLit.print]
    | implicit n u =>
      have hn : n.print ≠ [] := by
        cases u with
        | none => exact (numberAt_of_wf n _ h.1 h.2.1).ne_nil
        | some sup => obtain ⟨sp, u, p⟩ := sup; exact (numberAt_of_wf n _ h.1 h.2.1).ne_nil
      cases u with
      | none => simpa [AmountLit.print] using hn
      | some sup => obtain ⟨sp, u, p⟩ := sup; simp [AmountLit.print, hn]
  have hi' : i ≤ t.size := by
    rcases hi with h1 | h1
    · exact h1
    · simp at h1; exact absurd h1.1 htxt
  -- the text is `pre ++ a.print ++ rest` with `pre` of length `i`
  have hpre : (t.toList.take i).length = i := by simp [hi']
  have hteq : t = (t.toList.take i ++ a.print ++ rest).toArray := by
    apply Array.ext'
    simp only [List.append_assoc]
    rw [← ht, List.take_append_drop]
  have key : ∀ (p : P AAmount), p (t.toList.take i ++ a.print ++ rest).toArray ⟨(t.toList.take i).length, z⟩
      = some (a.value (t.toList.take i).length, ⟨(t.toList.take i ++ a.print).length, z⟩) →
      p t ⟨i, z⟩ = some (a.value i, ⟨i + a.print.length, z⟩) := by
    intro p hp
    rw [← hteq, hpre] at hp
    rw [hp]; simp [hpre]
  cases a with
  | remainder w p =>
    exact key amount (amount_of_proportion (proportion_roundtrip _ _ rest z h trivial))
  | ofNumber n p =>
    exact key amount (amount_of_proportion (proportion_roundtrip _ _ rest z h trivial))
  | percent n bl p =>
    exact key amount (amount_of_proportion (proportion_roundtrip _ _ rest z h trivial))
  | times n bl =>
    exact key amount (amount_of_proportion (proportion_roundtrip _ _ rest z h trivial))
  | explicit b1 n u b3 p =>
    apply key amount
    have he := explicitQuantity_roundtrip (t.toList.take i) b1 n u b3 p rest z h
    refine amount_of_explicit (s := ((AmountLit.explicit b1 n u b3 p).print ++ rest).tail) ?_ he
    cases u with
    | none => simp [AmountLit.print]
    | some bu => obtain ⟨b2, u⟩ := bu; simp [AmountLit.print]
  | implicit n u =>
    apply key amount
    have hi := implicitQuantity_roundtrip (t.toList.take i) n u rest z h
    cases u with
    | none =>
      obtain ⟨hn, hnf, _⟩ := h
      rw [amount_of_implicit (numberAt_of_wf n rest hn hnf) (by rw [← blanksWordAt_eq]; exact hr.1) hr.2 z
        (by simp [AmountLit.print])]
      exact hi
    | some sup =>
      obtain ⟨sp, u, p⟩ := sup
      obtain ⟨hn, hnf, hsp, hu, hp, hpf, hrest⟩ := h
      obtain ⟨hmem, hU⟩ := unitText_of_wf u hu
      have hreach := implicit_reached hmem hU hsp ((prepAt_of_wf p rest hp hpf).head_not_word hrest)
      have e : sp ++ u.print ++ (p.print ++ rest) = sp ++ u.print ++ p.print ++ rest := by simp
      rw [e] at hreach
      rw [amount_of_implicit (numberAt_of_wf n _ hn hnf) hreach.1 hreach.2 z
        (by simp [AmountLit.print])]
      exact hi

theorem amount_roundtrip (pre : Str) (a : AmountLit) (rest : Str) (z : Bool) (h : a.Ok rest) (hr : a.Reached rest) :
    (proportion <|> explicitQuantity <|> implicitQuantity) (pre ++ a.print ++ rest).toArray ⟨pre.length, z⟩
      = some (a.value pre.length, ⟨(pre ++ a.print).length, z⟩) := by
  have := amountAt_of_ok a rest h hr (pre ++ a.print ++ rest).toArray pre.length z (by simp)
  change amount _ _ = _
  simpa using this

/-- a reference as written: an optional amount with the blanks after it, and the name -/
structure RefLit where
  amount : Option (AmountLit × Str)
  name : StringLit

namespace RefLit

def print (r : RefLit) : Str :=
  match r.amount with
  | none => r.name.print
  | some (a, bl) => a.print ++ bl ++ r.name.print

/-- the expected `ast.Reference` for the reference written at offset `off` -/
def value (off : Nat) (r : RefLit) : AExpr :=
  match r.amount with
  | none => .ref (r.name.value off) none
  | some (a, bl) => .ref (r.name.value (off + a.print.length + bl.length)) (some (a.value off))

/-- permitted spellings.  Without an amount the name must not itself start like an amount: not with
    a remainder word, not with a digit, not with `{ number` (such names have to be quoted). -/
def Ok (rest : Str) (r : RefLit) : Prop :=
  match r.amount with
  | none =>
    r.name.Ok false rest ∧ remainderWordAt (r.name.print ++ rest) = false
      ∧ NextNot isDigit (r.name.print ++ rest)
      ∧ ∀ s', r.name.print ++ rest = '{' :: s' → NextNot isDigit (s'.dropWhile isHsp)
  | some (a, bl) =>
    a.Ok (bl ++ r.name.print ++ rest) ∧ a.Reached (bl ++ r.name.print ++ rest) ∧ IsBlanks bl
      ∧ r.name.Ok false rest

end RefLit

/-- **references are recovered verbatim**: optional amount, blanks, name -/
theorem reference_roundtrip (pre : Str) (r : RefLit) (rest : Str) (z : Bool) (h : r.Ok rest) :
    reference (pre ++ r.print ++ rest).toArray ⟨pre.length, z⟩
      = some (r.value pre.length, ⟨(pre ++ r.print).length, z⟩) := by
  obtain ⟨amt, name⟩ := r
  cases amt with
  | none =>
    obtain ⟨hn, hrem, hdig, hbr⟩ := h
    have hrem' : remainderLen (name.print ++ rest) = none := by
      have := remainderWordAt_eq (name.print ++ rest)
      rw [hrem] at this
      cases hl : remainderLen (name.print ++ rest) with
      | none => rfl
      | some k => rw [hl] at this; cases this
    have := reference_plain (stringAt_of_ok false name rest hn) hrem' hdig hbr z
      (t := (pre ++ name.print ++ rest).toArray) (i := pre.length) (by simp)
    simpa [RefLit.print, RefLit.value] using this
  | some abl =>
    obtain ⟨a, bl⟩ := abl
    obtain ⟨ha, hr, hbl, hn⟩ := h
    have := reference_amount (amountAt_of_ok a _ ha hr) hbl (stringAt_of_ok false name rest hn)
      (StringLit.head_not_blank hn rest) z
      (t := (pre ++ (a.print ++ bl ++ name.print) ++ rest).toArray) (i := pre.length) (by simp)
    simpa [RefLit.print, RefLit.value] using this

/-! ### non-vacuity -/

-- the model on concrete inputs
example : implicitQuantity "1 1/2 Table  Spoons of the sugar".toList.toArray ⟨0, false⟩
    = some (.qty 0 ⟨(1 : Rat) + mkRat 1 2, .frac⟩ (some [.sub 6 "Table  Spoons".toList]) [' '] " of the".toList,
            ⟨26, false⟩) := by decide +kernel
example : proportion "Left over OF flour".toList.toArray ⟨0, false⟩
    = some (.prop 0 none false (some "Left over".toList) " OF".toList, ⟨12, false⟩) := by decide +kernel
example : (proportion <|> explicitQuantity <|> implicitQuantity) "2 oz flour".toList.toArray ⟨0, false⟩
    = some (.qty 0 ⟨2, .int⟩ (some [.sub 2 "oz".toList]) [' '] [], ⟨4, false⟩) := by decide +kernel
/-- "of" wins over a unit: `2 of …` is a proportion -/
example : (proportion <|> explicitQuantity <|> implicitQuantity) "2 of flour".toList.toArray ⟨0, false⟩
    = some (.prop 0 (some ⟨2, .int⟩) false none " of".toList, ⟨4, false⟩) := by decide +kernel
example : explicitQuantity "{ 2 'big ones' } of the eggs".toList.toArray ⟨0, false⟩
    = some (.qty 0 ⟨2, .int⟩ (some [.sub 4 "big ones".toList]) [' '] " of the".toList, ⟨23, false⟩) := by
  decide +kernel

/-- "100g", followed by " flour", satisfies the hypotheses of the round-trip theorems -/
theorem amountOk_example :
    (AmountLit.implicit (.int "100".toList) (some ([], ⟨["g"], [[false]], []⟩, .none))).Ok " flour".toList := by
  refine ⟨⟨by decide, by decide⟩, ⟨by decide, ?_⟩, by simp [IsBlanks], ⟨by decide, by simp [UnitSpellingOk]⟩, trivial,
    (by decide +kernel : blanksWordAt "of".toList " flour".toList = false), ?_⟩
  · intro c hc
    have : c = 'g' := by
      simp [UnitLit.print, printUnit, caseWord, PrepLit.print] at hc
      simpa [isHsp] using hc.symm
    subst this; decide
  · intro c hc; simp at hc; subst hc; decide +kernel

example (pre : Str) (z : Bool) :
    (proportion <|> explicitQuantity <|> implicitQuantity) (pre ++ "100g".toList ++ " flour".toList).toArray ⟨pre.length, z⟩
      = some (.qty pre.length ⟨100, .int⟩ (some [.sub (pre.length + 3) ['g']]) [] [], ⟨(pre ++ "100g".toList).length, z⟩) := by
  have := amount_roundtrip pre _ _ z amountOk_example trivial
  simpa [AmountLit.print, AmountLit.value, NumLit.print, NumLit.value, UnitLit.print, printUnit, caseWord,
    PrepLit.print, digitsValue] using this

/-- "2 eggs" before a newline satisfies the hypotheses of `reference_roundtrip` -/
theorem refOk_example :
    (RefLit.mk (some (.implicit (.int ['2']) none, [' '])) ⟨.naked "eggs".toList, []⟩).Ok ['\n'] := by
  have e : [' '] ++ StringLit.print ⟨.naked "eggs".toList, []⟩ ++ ['\n'] = " eggs\n".toList := by decide +kernel
  have hd : (" eggs\n".toList).dropWhile isHsp = "eggs\n".toList := by decide +kernel
  have h1 : unitNameAt "eggs\n".toList = false := by decide +kernel
  have h2 : blanksWordAt "of".toList " eggs\n".toList = false := by decide +kernel
  have h3 : IsNaked "eggs".toList := by unfold IsNaked; decide +kernel
  have hc : ∀ c, ("eggs\n".toList).head? = some c → isDigit c = false ∧ c ≠ '/' ∧ c ≠ '%' ∧ c ≠ '*' := by
    intro c hc; cases hc; decide
  show (AmountLit.implicit (.int ['2']) none).Ok _ ∧ (AmountLit.implicit (.int ['2']) none).Reached _ ∧ _ ∧ _
  rw [e]
  refine ⟨⟨⟨by decide, by decide⟩, ⟨by decide, ?_⟩, ?_⟩, ⟨h2, ?_⟩, by simp [IsBlanks, isHsp], ?_⟩
  · rw [hd]; exact fun c h => ⟨(hc c h).1, (hc c h).2.1⟩
  · rw [hd]; exact h1
  · rw [hd]; exact fun c h => ⟨(hc c h).2.2.1, (hc c h).2.2.2⟩
  · exact ⟨h3, ⟨[], ['\n'], rfl, by simp, by intro c hc; cases hc; exact Or.inr (Or.inl rfl)⟩⟩

example (pre : Str) (z : Bool) :
    reference (pre ++ "2 eggs".toList ++ ['\n']).toArray ⟨pre.length, z⟩
      = some (.ref [.sub (pre.length + 2) "eggs".toList] (some (.qty pre.length ⟨2, .int⟩ none [] [])),
              ⟨(pre ++ "2 eggs".toList).length, z⟩) := by
  have := reference_roundtrip pre _ _ z refOk_example
  simpa [RefLit.print, RefLit.value, AmountLit.print, AmountLit.value, NumLit.print, NumLit.value,
    StringLit.print, StringLit.value, printString, printMore, stringValue, moreValue, StrAtom.print,
    StrAtom.value, digitsValue] using this

/-! # C06, layer 5: ends of lines, assignment signs, expressions and statements.

    Besides the lexical round trips (`eol`, `eof`, `assign`) this file specifies the *flat* recipes —
    statements `outputs := reference, action, action …` whose reference is an optional amount and a
    name, and whose names, actions and outputs are arbitrary strings (sequences of naked, quoted
    and bracketed atoms) — and proves that `parse` recovers every such recipe verbatim.
    Steps `name(arg, …)` and parentheses are covered by the lemma-level abstractions of
    `Lemmas/ParserExprs.lean` (`exprAt_step`, `exprAt_paren`, `stmtAt_plain`, `stmtAt_target`,
    `parse_ok`). -/

/-! ## Ends of lines, the end of the text, assignment signs -/

/-- an end of line as written -/
inductive EolLit where
  /-- blanks, one newline character, then any white space (further empty lines, indentation) -/
  | newline (bl : Str) (nl : Char) (ws : Str)
  /-- blanks, at the end of the text -/
  | eof (bl : Str)

namespace EolLit

def print : EolLit → Str
  | newline bl nl ws => bl ++ nl :: ws
  | eof bl => bl

/-- the blanks before the newline character / the end of the text -/
def blanks : EolLit → Str
  | newline bl _ _ => bl
  | eof bl => bl

def WF : EolLit → Prop
  | newline bl nl ws => IsBlanks bl ∧ isNewline nl = true ∧ IsSpaces ws
  | eof bl => IsBlanks bl

/-- after a newline-end-of-line no further white space (it would belong to it); after an
    end-of-text-end-of-line nothing at all -/
def Follow : EolLit → Str → Prop
  | newline _ _ _, rest => NextNot isReSpace rest
  | eof _, rest => rest = []

end EolLit

theorem eolAt_of_wf (e : EolLit) (rest : Str) (h : e.WF) (hf : e.Follow rest) : EolAt e.print rest := by
  cases e with
  | newline bl nl ws => exact eolAt_newline h.1 h.2.1 h.2.2 hf
  | eof bl => cases hf; exact eolAt_eof h

/-- **ends of lines are recognised** -/
theorem eol_roundtrip (pre : Str) (e : EolLit) (rest : Str) (z : Bool) (h : e.WF) (hf : e.Follow rest) :
    eol (pre ++ e.print ++ rest).toArray ⟨pre.length, z⟩ = some ((), ⟨(pre ++ e.print).length, z⟩) := by
  have := eolAt_of_wf e rest h hf (pre ++ e.print ++ rest).toArray pre.length z (by simp)
  simpa using this

/-- the end of the text is recognised, and only it -/
theorem eof_roundtrip (pre : Str) (z : Bool) : eof pre.toArray ⟨pre.length, z⟩ = some ((), ⟨pre.length, z⟩) :=
  eof_of_nil z (by simp)

theorem eof_rejects (pre : Str) (c : Char) (rest : Str) (z : Bool) :
    eof (pre ++ c :: rest).toArray ⟨pre.length, z⟩ = none :=
  eof_fail_of_cons (c := c) (s := rest) z (by simp)

/-- the assignment sign: `:=` for a named sub-recipe, `=` otherwise -/
def printAssign : Bool → Str
  | true => [':', '=']
  | false => ['=']

theorem printAssign_eq (named : Bool) : printAssign named = assignTxt named := by cases named <;> rfl

/-- **assignment signs are recognised** -/
theorem assign_roundtrip (pre : Str) (named : Bool) (rest : Str) (z : Bool) :
    assign (pre ++ printAssign named ++ rest).toArray ⟨pre.length, z⟩
      = some (named, ⟨(pre ++ printAssign named).length, z⟩) := by
  have := assign_run (named := named) (t := (pre ++ printAssign named ++ rest).toArray) (i := pre.length)
    (rest := rest) z (by simp [printAssign_eq])
  simpa [printAssign_eq] using this

/-- nothing else is an assignment sign -/
theorem assign_rejects (pre rest : Str) (z : Bool) (h1 : rest.head? ≠ some '=')
    (h2 : ∀ r, rest = ':' :: r → r.head? ≠ some '=') : assign (pre ++ rest).toArray ⟨pre.length, z⟩ = none :=
  assign_fail z (by simp) h1 h2

example : eol "a \t\n\n  b".toList.toArray ⟨1, false⟩ = some ((), ⟨7, false⟩) := by decide +kernel
example : eol "a \t".toList.toArray ⟨1, true⟩ = some ((), ⟨3, true⟩) := by decide +kernel
example : eol "a b".toList.toArray ⟨1, false⟩ = none := by decide +kernel
example : assign "x := y".toList.toArray ⟨2, false⟩ = some (true, ⟨4, false⟩) := by decide +kernel
example : assign "x : y".toList.toArray ⟨2, false⟩ = none := by decide +kernel
example : (EolLit.newline [' ', '\t'] '\n' ['\n', ' ', ' ']).WF ∧ (EolLit.newline [' ', '\t'] '\n' ['\n', ' ', ' ']).Follow ['b'] := by
  refine ⟨⟨by unfold IsBlanks; decide, by decide, by unfold IsSpaces; decide⟩, ?_⟩
  intro c hc; cases hc; decide

/-! ## `expr` on a reference -/

/-- **where no `(` stands in the rest of the text, an expression is a reference**: `expr` tries
    `step` first, and `step` starts by reading a `string` — which may tokenise the text quite
    differently from `reference` (see the example below) — but it needs a `(` to succeed -/
theorem expr_reference_roundtrip (pre rest : Str) (z : Bool) (fuel : Nat) (h : ∀ c ∈ rest, c ≠ '(') :
    expr (fuel + 1) (pre ++ rest).toArray ⟨pre.length, z⟩ = reference (pre ++ rest).toArray ⟨pre.length, z⟩ :=
  expr_eq_reference_of_text (by simp) h

/-- the hypothesis is needed: on `{2 '}'} flour, '(y)` the rule `reference` reads the quantity
    `{2 '}'}` of `flour` (13 characters), but `expr` reads a step whose name runs across the comma -/
example : (reference "{2 '}'} flour, '(y)".toList.toArray ⟨0, false⟩).map (·.2.pos) = some 13
    ∧ (expr 20 "{2 '}'} flour, '(y)".toList.toArray ⟨0, false⟩).map (·.2.pos) = some 19 := by
  constructor <;> decide +kernel

/-! ## Flat recipes -/

/-- one further item of a comma separated list: blanks, `,`, blanks, a string -/
structure CommaLit where
  b1 : Str
  b2 : Str
  s : StringLit

def CommaLit.print (c : CommaLit) : Str := c.b1 ++ ',' :: c.b2 ++ c.s.print

def printCommas : List CommaLit → Str
  | [] => []
  | c :: cs => c.print ++ printCommas cs

def CommasOk (rest : Str) : List CommaLit → Prop
  | [] => True
  | c :: cs => IsBlanks c.b1 ∧ IsBlanks c.b2 ∧ c.s.Ok false (printCommas cs ++ rest) ∧ CommasOk rest cs

/-- the values of the items written from offset `off` on -/
def commaValues (off : Nat) : List CommaLit → List AString
  | [] => []
  | c :: cs => c.s.value (off + c.b1.length + 1 + c.b2.length) :: commaValues (off + c.print.length) cs

/-- the target of a statement: `output (, output)* blanks (:= | =) blanks` -/
structure Target where
  output : StringLit
  more : List CommaLit
  b1 : Str
  named : Bool
  b2 : Str

def Target.print (g : Target) : Str :=
  g.output.print ++ (printCommas g.more ++ (g.b1 ++ (printAssign g.named ++ g.b2)))

/-- a flat statement: an optional target, a reference (an optional amount and a name), actions
    applied to it from left to right, and the end of the line -/
structure FlatStmt where
  target : Option Target
  ref : RefLit
  actions : List CommaLit
  eol : EolLit

namespace FlatStmt

def targetTxt (s : FlatStmt) : Str :=
  match s.target with
  | some g => g.print
  | none => []

def print (s : FlatStmt) : Str := s.targetTxt ++ ((s.ref.print ++ printCommas s.actions) ++ s.eol.print)

/-- the line from the reference up to the newline character (or the end of the text) -/
def line (s : FlatStmt) : Str := s.ref.print ++ (printCommas s.actions ++ s.eol.blanks)

/-- the statement written at offset `off`: `ref, a1, a2` is `a2(a1(ref))` -/
def value (off : Nat) (s : FlatStmt) : AStmt :=
  let o := off + s.targetTxt.length
  { expr := (commaValues (o + s.ref.print.length) s.actions).foldl (fun e action => .step action [e])
      (s.ref.value o)
    outputs := s.target.map fun g => g.output.value off :: commaValues (off + g.output.print.length) g.more
    named := (s.target.map (·.named)).getD false }

end FlatStmt

/-- admissible flat statements in front of `rest`: the reference and every string are admissible
    where they stand, blanks are blanks, and the line ends properly.  A reference *with an amount*
    is read in an unrelated way by the rules tried before `reference` (`step` and the output list
    start with a `string`, which tokenises the amount text differently), so for it the line must
    moreover contain no `(` and no backslash — and no `=` unless the statement has a target:
    then no rule can get past the end of the line, and neither a step nor a target is found. -/
def FlatStmt.Ok (rest : Str) (s : FlatStmt) : Prop :=
  s.ref.Ok (printCommas s.actions ++ (s.eol.print ++ rest))
  ∧ CommasOk (s.eol.print ++ rest) s.actions
  ∧ s.eol.WF ∧ s.eol.Follow rest
  ∧ (s.ref.amount.isSome = true →
      ∀ c ∈ s.line, c ≠ '(' ∧ c ≠ '\\' ∧ (s.target.isNone = true → c ≠ '='))
  ∧ match s.target with
    | none => True
    | some g =>
      g.output.Ok false (printCommas g.more ++ (g.b1 ++ (printAssign g.named ++ (g.b2 ++
        ((s.ref.print ++ printCommas s.actions) ++ (s.eol.print ++ rest))))))
      ∧ CommasOk (g.b1 ++ (printAssign g.named ++ (g.b2 ++
        ((s.ref.print ++ printCommas s.actions) ++ (s.eol.print ++ rest))))) g.more
      ∧ IsBlanks g.b1 ∧ IsBlanks g.b2

def printFlat : List FlatStmt → Str
  | [] => []
  | s :: ss => s.print ++ printFlat ss

def FlatOk : List FlatStmt → Prop
  | [] => True
  | s :: ss => s.Ok (printFlat ss) ∧ FlatOk ss

def flatValues (off : Nat) : List FlatStmt → List AStmt
  | [] => []
  | s :: ss => s.value off :: flatValues (off + s.print.length) ss

/-! ### bridges to the parser lemmas -/

def CommaLit.toItem (c : CommaLit) : CommaItem := ⟨c.b1, c.b2, c.s.print, fun i => c.s.value i⟩

theorem printCommaItems_map (cs : List CommaLit) : printCommaItems (cs.map CommaLit.toItem) = printCommas cs := by
  induction cs with
  | nil => rfl
  | cons c cs ih => simp only [List.map_cons, printCommaItems, printCommas, ih]; rfl

theorem commaItemVals_map (cs : List CommaLit) : ∀ off, commaItemVals off (cs.map CommaLit.toItem) = commaValues off cs := by
  induction cs with
  | nil => intro off; rfl
  | cons c cs ih => intro off; simp only [List.map_cons, commaItemVals, commaValues, ih]; rfl

theorem commaItemsOk_map (rest : Str) : ∀ cs : List CommaLit, CommasOk rest cs → CommaItemsOk rest (cs.map CommaLit.toItem)
  | [], _ => trivial
  | c :: cs, h => ⟨h.1, h.2.1, by
      rw [printCommaItems_map]; exact stringAt_of_ok false c.s _ h.2.2.1, commaItemsOk_map rest cs h.2.2.2⟩

/-- an end of line starts, after its blanks, with a newline or is the end of the text -/
theorem eol_split (e : EolLit) (rest : Str) (h : e.WF) (hf : e.Follow rest) :
    ∃ r, e.print ++ rest = e.blanks ++ r ∧ IsBlanks e.blanks ∧ ∀ c, r.head? = some c → isNewline c = true := by
  cases e with
  | newline bl nl ws =>
    exact ⟨nl :: ws ++ rest, by simp [EolLit.print, EolLit.blanks], h.1, fun c hc => by
      simp only [List.cons_append, List.head?_cons, Option.some.injEq] at hc; subst hc; exact h.2.1⟩
  | eof bl =>
    cases hf
    exact ⟨[], by simp [EolLit.print, EolLit.blanks], h, by simp⟩

theorem noAssign_of_eol (e : EolLit) (rest : Str) (h : e.WF) (hf : e.Follow rest) :
    NoAssign (e.print ++ rest) := by
  obtain ⟨r, e', hbl, hr⟩ := eol_split e rest h hf
  refine ⟨e.blanks, r, e', hbl, fun c hc => ?_, fun r' er => ?_⟩
  · have hn := hr c hc
    refine ⟨isHsp_of_isNewline hn, ?_, ?_⟩ <;> (rintro rfl; exact absurd hn (by decide))
  · subst er; exact absurd (hr ':' rfl) (by decide)

/-- after the name of a flat statement comes — after blanks — a comma or a newline, never a `(` -/
theorem noParen_after_name (cs : List CommaLit) (e : EolLit) (rest : Str) (hcs : CommasOk (e.print ++ rest) cs)
    (h : e.WF) (hf : e.Follow rest) :
    ∃ bl r, printCommas cs ++ (e.print ++ rest) = bl ++ r ∧ IsBlanks bl
      ∧ ∀ c, r.head? = some c → isHsp c = false ∧ c ≠ '(' := by
  cases cs with
  | nil =>
    obtain ⟨r, e', hbl, hr⟩ := eol_split e rest h hf
    refine ⟨e.blanks, r, by simpa [printCommas] using e', hbl, fun c hc => ?_⟩
    have hn := hr c hc
    exact ⟨isHsp_of_isNewline hn, by rintro rfl; exact absurd hn (by decide)⟩
  | cons c cs =>
    refine ⟨c.b1, ',' :: (c.b2 ++ c.s.print ++ (printCommas cs ++ (e.print ++ rest))),
      by simp [printCommas, CommaLit.print], hcs.1, fun x hx => ?_⟩
    simp only [List.head?_cons, Option.some.injEq] at hx; subst hx
    exact ⟨by decide, by decide⟩

theorem StringLit.print_ne_nil {s : StringLit} {rest : Str} (h : s.Ok false rest) : s.print ≠ [] :=
  (stringAt_of_ok false s rest h).ne_nil

theorem remainderLen_none_of_wordAt {s : Str} (h : remainderWordAt s = false) : remainderLen s = none := by
  have := remainderWordAt_eq s
  rw [h] at this
  cases hl : remainderLen s with
  | none => rfl
  | some k => rw [hl] at this; cases this

/-- every admissible reference is a reference, in every text -/
theorem referenceAt_of_ok (r : RefLit) (rest : Str) (h : r.Ok rest) :
    ReferenceAt r.print rest (fun i => r.value i) := by
  obtain ⟨amt, name⟩ := r
  cases amt with
  | none =>
    obtain ⟨hn, hrem, hdig, hbr⟩ := h
    exact referenceAt_plain (stringAt_of_ok false name rest hn) (remainderLen_none_of_wordAt hrem) hdig hbr
  | some abl =>
    obtain ⟨a, bl⟩ := abl
    obtain ⟨ha, hr, hbl, hn⟩ := h
    exact referenceAt_amount (amountAt_of_ok a _ ha hr) hbl (stringAt_of_ok false name rest hn)

theorem RefLit.print_ne_nil {r : RefLit} {rest : Str} (h : r.Ok rest) : r.print ≠ [] := by
  obtain ⟨amt, name⟩ := r
  cases amt with
  | none => exact StringLit.print_ne_nil h.1
  | some abl =>
    obtain ⟨a, bl⟩ := abl
    have := StringLit.print_ne_nil h.2.2.2
    simp only [RefLit.print]
    intro e
    exact this (List.append_eq_nil_iff.mp e).2

/-- the text from the reference on: the line, then a newline character or the end of the text -/
theorem line_split (s : FlatStmt) (rest : Str) (hwf : s.eol.WF) (hf : s.eol.Follow rest) :
    ∃ tail, s.ref.print ++ (printCommas s.actions ++ (s.eol.print ++ rest)) = s.line ++ tail
      ∧ ∀ c, tail.head? = some c → isNewline c = true := by
  obtain ⟨r, e, _, hr⟩ := eol_split s.eol rest hwf hf
  exact ⟨r, by rw [e]; simp [FlatStmt.line, List.append_assoc], hr⟩

/-- the reference of an admissible flat statement is read by `expr` -/
theorem exprAt_of_ok (s : FlatStmt) (rest : Str) (h : s.Ok rest) :
    ExprAt 1 s.ref.print (printCommas s.actions ++ (s.eol.print ++ rest)) (fun i => s.ref.value i) := by
  obtain ⟨hrefok, hacts, hwf, hfollow, hline, _⟩ := h
  have href := referenceAt_of_ok s.ref _ hrefok
  cases ha : s.ref.amount with
  | none =>
    have hp : s.ref.print = s.ref.name.print := by simp [RefLit.print, ha]
    have hn : StringAt false s.ref.print (printCommas s.actions ++ (s.eol.print ++ rest))
        (fun i => s.ref.name.value i) := by
      rw [hp]
      have : s.ref.Ok _ := hrefok
      simp only [RefLit.Ok, ha] at this
      exact stringAt_of_ok false _ _ this.1
    obtain ⟨bl, r, esplit, hbl, hr⟩ := noParen_after_name s.actions s.eol rest hacts hwf hfollow
    exact exprAt_reference_of_string href hn rfl esplit hbl hr
  | some abl =>
    obtain ⟨tail, e, htail⟩ := line_split s rest hwf hfollow
    exact exprAt_reference_of_line href e
      (fun c hc => ⟨(hline (by simp [ha]) c hc).1, (hline (by simp [ha]) c hc).2.1⟩) htail

/-- no target is found at the reference of an admissible flat statement without target -/
theorem noTargetAt_of_ok (s : FlatStmt) (rest : Str) (h : s.Ok rest) (ht : s.target = none) :
    NoTargetAt (s.ref.print ++ (printCommas s.actions ++ (s.eol.print ++ rest))) := by
  obtain ⟨hrefok, hacts, hwf, hfollow, hline, _⟩ := h
  cases ha : s.ref.amount with
  | none =>
    have hp : s.ref.print = s.ref.name.print := by simp [RefLit.print, ha]
    have hn : StringAt false s.ref.print (printCommaItems (s.actions.map CommaLit.toItem) ++ (s.eol.print ++ rest))
        (fun i => s.ref.name.value i) := by
      rw [hp, printCommaItems_map]
      have : s.ref.Ok _ := hrefok
      simp only [RefLit.Ok, ha] at this
      exact stringAt_of_ok false _ _ this.1
    have := noTargetAt_of_outputs hn (commaItemsOk_map _ _ hacts) (noAssign_of_eol s.eol rest hwf hfollow)
    simpa [printCommaItems_map, List.append_assoc] using this
  | some abl =>
    obtain ⟨tail, e, htail⟩ := line_split s rest hwf hfollow
    rw [e]
    exact noTargetAt_of_line
      (fun c hc => ⟨(hline (by simp [ha]) c hc).2.2 (by simp [ht]), (hline (by simp [ha]) c hc).2.1⟩) htail

/-- every admissible flat statement is a statement -/
theorem stmtAt_of_ok (s : FlatStmt) (rest : Str) (h : s.Ok rest) :
    StmtAt s.print rest (fun i => s.value i) := by
  have hexpr0 := exprAt_of_ok s rest h
  have hnot := noTargetAt_of_ok s rest h
  obtain ⟨hrefok, hacts, hwf, hfollow, _, htarget⟩ := h
  have hitems := commaItemsOk_map _ _ hacts
  have hnoassign := noAssign_of_eol s.eol rest hwf hfollow
  have hexpr : ExprAt 1 s.ref.print (printCommaItems (s.actions.map CommaLit.toItem) ++ (s.eol.print ++ rest))
      (fun i => s.ref.value i) := by
    rw [printCommaItems_map]; exact hexpr0
  have hltr := ltrAt_of hexpr hitems hnoassign.noComma
  have heol := eolAt_of_wf s.eol rest hwf hfollow
  have hd : 1 ≤ (s.ref.print ++ printCommaItems (s.actions.map CommaLit.toItem)).length + 1 := by omega
  cases ht : s.target with
  | none =>
    have hno : NoTargetAt ((s.ref.print ++ printCommaItems (s.actions.map CommaLit.toItem)) ++ (s.eol.print ++ rest)) := by
      have := hnot ht
      simpa [printCommaItems_map, List.append_assoc] using this
    have := stmtAt_plain hltr heol hd hno
    simpa [FlatStmt.print, FlatStmt.targetTxt, FlatStmt.value, ht, printCommaItems_map, commaItemVals_map] using this
  | some g =>
    rw [ht] at htarget
    obtain ⟨hout, hmore, hb1, hb2⟩ := htarget
    have ho := stringAt_of_ok false g.output _ hout
    have hmoreItems := commaItemsOk_map _ _ hmore
    have := stmtAt_target (otxt := g.output.print) (outs := g.more.map CommaLit.toItem) (b1 := g.b1) (b2 := g.b2)
      (named := g.named) (ltxt := s.ref.print ++ printCommaItems (s.actions.map CommaLit.toItem))
      (eoltxt := s.eol.print) (rest := rest)
      (by simpa [printCommaItems_map, printAssign_eq] using ho)
      (by simpa [printCommaItems_map, printAssign_eq] using hmoreItems) hb1 hb2 hltr heol hd
    simpa [FlatStmt.print, FlatStmt.targetTxt, FlatStmt.value, ht, Target.print, Parser.targetTxt,
      printCommaItems_map, commaItemVals_map, printAssign_eq] using this

theorem FlatStmt.print_ne_nil {s : FlatStmt} {rest : Str} (h : s.Ok rest) : s.print ≠ [] := by
  have hne := RefLit.print_ne_nil h.1
  intro e
  have := congrArg List.length e
  simp only [FlatStmt.print, List.length_append, List.length_nil] at this
  have : 0 < s.ref.print.length := List.length_pos_iff.mpr hne
  omega

def FlatStmt.toItem (s : FlatStmt) : StmtItem := ⟨s.print, fun i => s.value i⟩

theorem printStmts_map (ss : List FlatStmt) : printStmts (ss.map FlatStmt.toItem) = printFlat ss := by
  induction ss with
  | nil => rfl
  | cons s ss ih => simp only [List.map_cons, printStmts, printFlat, ih]; rfl

theorem stmtVals_map (ss : List FlatStmt) : ∀ off, stmtVals off (ss.map FlatStmt.toItem) = flatValues off ss := by
  induction ss with
  | nil => intro off; rfl
  | cons s ss ih => intro off; simp only [List.map_cons, stmtVals, flatValues, ih]; rfl

theorem stmtsOk_map : ∀ ss : List FlatStmt, FlatOk ss → StmtsOk (ss.map FlatStmt.toItem)
  | [], _ => trivial
  | s :: ss, h => ⟨FlatStmt.print_ne_nil h.1, by
      rw [printStmts_map]; exact stmtAt_of_ok s _ h.1, stmtsOk_map ss h.2⟩

/-- **flat statements are recovered verbatim** -/
theorem flatStmt_roundtrip (pre : Str) (s : FlatStmt) (rest : Str) (z : Bool) (h : s.Ok rest) :
    stmt (pre ++ s.print ++ rest).toArray ⟨pre.length, z⟩
      = some (s.value pre.length, ⟨(pre ++ s.print).length, z⟩) := by
  have := stmtAt_of_ok s rest h (pre ++ s.print ++ rest).toArray pre.length z (by simp)
  simpa using this

/-- **`parse` recovers every flat recipe**: optional white space, then one or more admissible flat
    statements up to the end of the text -/
theorem flat_parse_roundtrip (ws0 : Str) (s : FlatStmt) (ss : List FlatStmt) (hws : IsSpaces ws0)
    (hok : FlatOk (s :: ss)) :
    parse (ws0 ++ printFlat (s :: ss)) = .ok (flatValues ws0.length (s :: ss)) := by
  have := parse_ok (ws0 := ws0) (a := s.toItem) (as := ss.map FlatStmt.toItem) hws (stmtsOk_map (s :: ss) hok)
  rw [← List.map_cons, printStmts_map, stmtVals_map] at this
  exact this

/-! ### examples -/

/-- a naked word is an admissible string in front of blanks and a character that ends strings -/
theorem nakedLit_ok (txt : Str) (h : IsNaked txt) (rest ws r : Str) (e : rest = ws ++ r)
    (hws : ∀ c ∈ ws, isReSpace c = true ∧ isNewline c = false)
    (hr : ∀ c, r.head? = some c → EndsString false c) : (StringLit.mk (.naked txt) []).Ok false rest := by
  refine ⟨h, ?_⟩
  show LastFollow false (.naked txt) rest
  have : LastFollow false (.naked txt) rest = NakedFollow false rest := if_pos rfl
  rw [this]
  exact ⟨ws, r, e, hws, hr⟩

/-- a naked word directly in front of the character `c` that ends strings -/
theorem nakedLit_ok' (txt : Str) (h : IsNaked txt) (rest : Str) (c : Char) (tl : Str) (e : rest = c :: tl)
    (hc : EndsString false c) : (StringLit.mk (.naked txt) []).Ok false rest :=
  nakedLit_ok txt h rest [] (c :: tl) (by simpa using e) (by simp) (by intro d hd; cases hd; exact hc)

theorem nextNot_of_head (p : Char → Bool) (rest : Str) (c : Char) (tl : Str) (e : rest = c :: tl)
    (h : p c = false) : NextNot p rest := by
  subst e; intro d hd; cases hd; exact h

/-- a naked name without amount, where the text `X` from the name on does not start like an amount -/
theorem plainRef_ok (name : StringLit) (A X : Str) (c : Char) (tl : Str) (e : name.print ++ A = X)
    (eX : X = c :: tl) (hname : name.Ok false A) (hrem : remainderWordAt X = false)
    (hdig : isDigit c = false) (hbr : c ≠ '{') : (RefLit.mk none name).Ok A := by
  subst e
  refine ⟨hname, hrem, nextNot_of_head _ _ c tl eX hdig, ?_⟩
  intro s' es'
  rw [eX] at es'
  cases es'
  exact absurd rfl hbr

/-- `digits blanks name`: a bare number as the amount; `X` is the text after the digits and `Y` the
    text after the blanks -/
theorem bareNumberRef_ok (ds bl : Str) (name : StringLit) (A X Y : Str)
    (e : bl ++ name.print ++ A = X) (hY : X.dropWhile isHsp = Y)
    (hds : IsDigits ds) (hdot : X.head? ≠ some '.')
    (hc : ∀ c, Y.head? = some c → isDigit c = false ∧ c ≠ '/' ∧ c ≠ '%' ∧ c ≠ '*')
    (hunit : unitNameAt Y = false) (hof : blanksWordAt "of".toList X = false)
    (hbl : IsBlanks bl) (hname : name.Ok false A) :
    (RefLit.mk (some (.implicit (.int ds) none, bl)) name).Ok A := by
  subst hY; subst e
  exact ⟨⟨hds, ⟨hdot, fun c h => ⟨(hc c h).1, (hc c h).2.1⟩⟩, hunit⟩,
    ⟨hof, fun c h => ⟨(hc c h).2.2.1, (hc c h).2.2.2⟩⟩, hbl, hname⟩

/-- `digits unit blanks name` without preposition; `X` is the text after the unit, `U` the text
    after the digits -/
theorem unitRef_ok (ds sp : Str) (u : UnitLit) (bl : Str) (name : StringLit) (A X U Y : Str)
    (e : bl ++ name.print ++ A = X) (eU : sp ++ u.print ++ PrepLit.none.print ++ X = U)
    (hY : U.dropWhile isHsp = Y) (hds : IsDigits ds) (hdot : U.head? ≠ some '.')
    (hc : ∀ c, Y.head? = some c → isDigit c = false ∧ c ≠ '/')
    (hsp : IsBlanks sp) (hu : u.WF) (hof : blanksWordAt "of".toList X = false) (hword : NextNot isReWord X)
    (hbl : IsBlanks bl) (hname : name.Ok false A) :
    (RefLit.mk (some (.implicit (.int ds) (some (sp, u, .none)), bl)) name).Ok A := by
  subst hY; subst eU; subst e
  exact ⟨⟨hds, ⟨hdot, hc⟩, hsp, hu, trivial, hof, hword⟩, trivial, hbl, hname⟩

def exStmt1 : FlatStmt :=
  { target := none, ref := ⟨none, ⟨.naked ['a'], []⟩⟩, actions := [⟨[], [' '], ⟨.naked ['b'], []⟩⟩],
    eol := .newline [] '\n' [] }

def exStmt2 : FlatStmt :=
  { target := some ⟨⟨.naked ['c'], []⟩, [], [' '], false, [' ']⟩, ref := ⟨none, ⟨.naked ['a'], []⟩⟩, actions := [],
    eol := .newline [] '\n' [] }

example : printFlat [exStmt1, exStmt2] = "a, b\nc = a\n".toList := by decide +kernel

theorem isNaked_a : IsNaked ['a'] := by unfold IsNaked; decide +kernel
theorem endsString_newline : EndsString false '\n' := Or.inr (Or.inl (by decide))
theorem endsString_comma : EndsString false ',' := Or.inl (by decide)
theorem endsString_eq : EndsString false '=' := Or.inl (by decide)
theorem eolWF_newline : (EolLit.newline [] '\n' []).WF :=
  ⟨by unfold IsBlanks; decide, by decide, by unfold IsSpaces; decide⟩

theorem exStmt2_ok : exStmt2.Ok [] := by
  refine ⟨?_, trivial, eolWF_newline, ?_, (fun h => by cases h), ?_, trivial, by unfold IsBlanks; decide,
    by unfold IsBlanks; decide⟩
  · exact plainRef_ok _ _ "a\n".toList 'a' ['\n'] (by decide +kernel) (by decide +kernel)
      (nakedLit_ok' _ isNaked_a _ '\n' [] (by decide +kernel) endsString_newline)
      (by decide +kernel) (by decide) (by decide)
  · intro c hc; cases hc
  · exact nakedLit_ok _ (by unfold IsNaked; decide +kernel) _ [' '] "= a\n".toList (by decide +kernel)
      (by decide) (by intro c hc; cases hc; exact endsString_eq)

theorem exStmt1_ok : exStmt1.Ok (printFlat [exStmt2]) := by
  refine ⟨?_, ⟨by unfold IsBlanks; decide, by unfold IsBlanks; decide, ?_, trivial⟩, eolWF_newline, ?_,
    (fun h => by cases h), trivial⟩
  · exact plainRef_ok _ _ "a, b\nc = a\n".toList 'a' ", b\nc = a\n".toList (by decide +kernel) (by decide +kernel)
      (nakedLit_ok' _ isNaked_a _ ',' " b\nc = a\n".toList (by decide +kernel) endsString_comma)
      (by decide +kernel) (by decide) (by decide)
  · exact nakedLit_ok' _ (by unfold IsNaked; decide +kernel) _ '\n' "c = a\n".toList (by decide +kernel)
      endsString_newline
  · exact nextNot_of_head _ _ 'c' " = a\n".toList (by decide +kernel) (by decide)

/-- `a, b` / `c = a`: two statements, the second with an output -/
example : parse "a, b\nc = a\n".toList
    = .ok [{ expr := .step [.sub 3 ['b']] [.ref [.sub 0 ['a']] none], outputs := none, named := false },
           { expr := .ref [.sub 9 ['a']] none, outputs := some [[.sub 5 ['c']]], named := false }] :=
  flat_parse_roundtrip [] exStmt1 [exStmt2] (by unfold IsSpaces; decide) ⟨exStmt1_ok, exStmt2_ok, trivial⟩

/-! with amounts: `2 eggs, beaten` / `100g flour` / `batter = eggs, flour` -/

def exA1 : FlatStmt :=
  { target := none, ref := ⟨some (.implicit (.int ['2']) none, [' ']), ⟨.naked "eggs".toList, []⟩⟩,
    actions := [⟨[], [' '], ⟨.naked "beaten".toList, []⟩⟩], eol := .newline [] '\n' [] }

def exA2 : FlatStmt :=
  { target := none,
    ref := ⟨some (.implicit (.int "100".toList) (some ([], ⟨["g"], [[false]], []⟩, .none)), [' ']),
            ⟨.naked "flour".toList, []⟩⟩,
    actions := [], eol := .newline [] '\n' [] }

def exA3 : FlatStmt :=
  { target := some ⟨⟨.naked "batter".toList, []⟩, [], [' '], false, [' ']⟩,
    ref := ⟨none, ⟨.naked "eggs".toList, []⟩⟩,
    actions := [⟨[], [' '], ⟨.naked "flour".toList, []⟩⟩], eol := .newline [] '\n' [] }

theorem exA_print : printFlat [exA1, exA2, exA3]
    = "2 eggs, beaten\n100g flour\nbatter = eggs, flour\n".toList := by decide +kernel

theorem isNaked_eggs : IsNaked "eggs".toList := by unfold IsNaked; decide +kernel
theorem isNaked_flour : IsNaked "flour".toList := by unfold IsNaked; decide +kernel

theorem exA3_ok : exA3.Ok [] := by
  refine ⟨?_, ⟨by unfold IsBlanks; decide, by unfold IsBlanks; decide, ?_, trivial⟩, eolWF_newline, ?_,
    (fun h => by cases h), ?_, trivial, by unfold IsBlanks; decide, by unfold IsBlanks; decide⟩
  · exact plainRef_ok _ _ "eggs, flour\n".toList 'e' "ggs, flour\n".toList (by decide +kernel) (by decide +kernel)
      (nakedLit_ok' _ isNaked_eggs _ ',' " flour\n".toList (by decide +kernel) endsString_comma)
      (by decide +kernel) (by decide) (by decide)
  · exact nakedLit_ok' _ isNaked_flour _ '\n' [] (by decide +kernel) endsString_newline
  · intro c hc; cases hc
  · exact nakedLit_ok _ (by unfold IsNaked; decide +kernel) _ [' '] "= eggs, flour\n".toList (by decide +kernel)
      (by decide) (by intro c hc; cases hc; exact endsString_eq)

theorem exA2_ok : exA2.Ok (printFlat [exA3]) := by
  refine ⟨?_, trivial, eolWF_newline, ?_, by decide +kernel, trivial⟩
  · exact unitRef_ok _ _ _ _ _ _ " flour\nbatter = eggs, flour\n".toList "g flour\nbatter = eggs, flour\n".toList
      "g flour\nbatter = eggs, flour\n".toList (by decide +kernel) (by decide +kernel) (by decide +kernel)
      ⟨by decide, by decide⟩ (by decide) (by intro c hc; cases hc; exact ⟨by decide, by decide⟩)
      (by simp [IsBlanks]) ⟨by decide, by simp [UnitSpellingOk]⟩ (by decide +kernel)
      (nextNot_of_head _ _ ' ' "flour\nbatter = eggs, flour\n".toList (by decide +kernel) (by decide +kernel))
      (by unfold IsBlanks; decide)
      (nakedLit_ok' _ isNaked_flour _ '\n' "batter = eggs, flour\n".toList (by decide +kernel) endsString_newline)
  · exact nextNot_of_head _ _ 'b' "atter = eggs, flour\n".toList (by decide +kernel) (by decide)

theorem exA1_ok : exA1.Ok (printFlat [exA2, exA3]) := by
  refine ⟨?_, ⟨by unfold IsBlanks; decide, by unfold IsBlanks; decide, ?_, trivial⟩, eolWF_newline, ?_,
    by decide +kernel, trivial⟩
  · exact bareNumberRef_ok _ _ _ _ " eggs, beaten\n100g flour\nbatter = eggs, flour\n".toList
      "eggs, beaten\n100g flour\nbatter = eggs, flour\n".toList (by decide +kernel) (by decide +kernel)
      ⟨by decide, by decide⟩ (by decide)
      (by intro c hc; cases hc; exact ⟨by decide, by decide, by decide, by decide⟩)
      (by decide +kernel) (by decide +kernel) (by unfold IsBlanks; decide)
      (nakedLit_ok' _ isNaked_eggs _ ',' " beaten\n100g flour\nbatter = eggs, flour\n".toList (by decide +kernel)
        endsString_comma)
  · exact nakedLit_ok' _ (by unfold IsNaked; decide +kernel) _ '\n' "100g flour\nbatter = eggs, flour\n".toList
      (by decide +kernel) endsString_newline
  · exact nextNot_of_head _ _ '1' "00g flour\nbatter = eggs, flour\n".toList (by decide +kernel) (by decide)

theorem exA_values : flatValues 0 [exA1, exA2, exA3]
    = [{ expr := .step [.sub 8 "beaten".toList]
                   [.ref [.sub 2 "eggs".toList] (some (.qty 0 ⟨((2 : Nat) : Rat), .int⟩ none [] []))],
         outputs := none, named := false },
       { expr := .ref [.sub 20 "flour".toList]
                   (some (.qty 15 ⟨((100 : Nat) : Rat), .int⟩ (some [.sub 18 ['g']]) [] [])),
         outputs := none, named := false },
       { expr := .step [.sub 41 "flour".toList] [.ref [.sub 35 "eggs".toList] none],
         outputs := some [[.sub 26 "batter".toList]], named := false }] := by
  rfl

/-- a recipe with amounts: the bare number `2`, and `100g` with a unit -/
example : parse "2 eggs, beaten\n100g flour\nbatter = eggs, flour\n".toList
    = .ok [{ expr := .step [.sub 8 "beaten".toList]
                       [.ref [.sub 2 "eggs".toList] (some (.qty 0 ⟨((2 : Nat) : Rat), .int⟩ none [] []))],
             outputs := none, named := false },
           { expr := .ref [.sub 20 "flour".toList]
                       (some (.qty 15 ⟨((100 : Nat) : Rat), .int⟩ (some [.sub 18 ['g']]) [] [])),
             outputs := none, named := false },
           { expr := .step [.sub 41 "flour".toList] [.ref [.sub 35 "eggs".toList] none],
             outputs := some [[.sub 26 "batter".toList]], named := false }] := by
  have key := flat_parse_roundtrip [] exA1 [exA2, exA3] (by unfold IsSpaces; decide)
    ⟨exA1_ok, exA2_ok, exA3_ok, trivial⟩
  rw [List.nil_append, exA_print, List.length_nil, exA_values] at key
  exact key

end RG.C06
