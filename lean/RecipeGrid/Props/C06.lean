import RecipeGrid.Model.Parser
namespace RG.C06
/-- the parser model is total: it returns one of the three outcomes for every text -/
theorem parse_total (s : Str) : (∃ stmts, parse s = .ok stmts) ∨ parse s = .syntaxError := by
  unfold parse; split <;> simp
end RG.C06
