import RecipeGrid.Lemmas.FloatErr
import RecipeGrid.Props.C20
/-! C20.4 (off-threshold part): off the 2 % threshold the binary64 lint rule (`lintF`) and its exact-rational meaning
    (`lintQ`) give the same verdict. The error analysis follows `lint.py` operation for operation:
    `used += float(q * conv) / float(total)` for every use, then `math.isclose(used, 1, rel_tol = 0.02)`.
    `toDouble` has an unbounded exponent, so no range condition appears; for binary64 proper the statements
    apply while no intermediate leaves the normal range. -/
namespace RG.C20

-- ================================================================ number operations, with their rounding count
theorem toFlt_near {a : Num} {A : Rat} {k : Nat} (h : Near k a.val A) : Near (k + 1) a.toFlt A := by
  unfold Num.toFlt
  split
  · exact h.weaken (by omega)
  · exact h.round

theorem mul_near {a b : Num} {A B : Rat} {j k : Nat} (ha : Near j a.val A) (hb : Near k b.val B) :
    Near (j + k + 3) (a.mul b).val (A * B) := by
  unfold Num.mul
  split
  · have := ((toFlt_near ha).mul (toFlt_near hb)).round
    exact this.weaken (by omega)
  · exact (ha.mul hb).weaken (by omega)

theorem div_near {a b x : Num} {A B : Rat} {j k : Nat} (ha : Near j a.val A) (hb : Near k b.val B)
    (hb0 : 0 < b.val) (hB0 : 0 < B) (hx : a.div b = some x) : Near (j + k + 3) x.val (A / B) := by
  unfold Num.div at hx
  have hne : (b.val == 0) = false := by simpa using Rat.ne_of_gt hb0
  simp only [hne, Bool.false_eq_true, if_false] at hx
  split at hx
  · cases hx
    have hfb : 0 < b.toFlt := by
      unfold Num.toFlt; split
      · exact hb0
      · exact toDouble_pos hb0
    have := ((toFlt_near ha).div (toFlt_near hb) hfb hB0).round
    exact this.weaken (by omega)
  · split at hx
    · cases hx
      exact ((ha.div hb hb0 hB0).round).weaken (by omega)
    · cases hx
      exact (ha.div hb hb0 hB0).weaken (by omega)

/-- `used += x` where `used` is already a float -/
theorem add_near {u x : Num} {U X : Rat} {k : Nat} (hu : u.kind = .flt) (hU : Near k u.val U)
    (hX : Near k x.toFlt X) : Near (k + 1) (u.add x).val (U + X) ∧ (u.add x).kind = .flt := by
  have hf : u.isFlt = true := by simp [Num.isFlt, hu]
  have hv : u.toFlt = u.val := by simp [Num.toFlt, hf]
  simp only [Num.add, hf, Bool.true_or, if_true, hv]
  exact ⟨(hU.add hX).round, trivial⟩

-- ================================================================ the accumulation loop in both layers
/-- a use covered by the error analysis.
    * a quantity of a sub recipe whose total is unknown: both layers report it;
    * a quantity whose unit neither layer can convert to the total's unit: both layers report it;
    * a non-negative quantity of a positive total whose unit converts by the same non-negative factor in both
      layers (no units on either side; the same unit; an exactly representable factor such as kg → g);
    * an explicit non-negative proportion.
    Remainders ("the rest") are handled by `UseOK`. -/
def PlainUse (total : Option Quantity) : Amount → Prop
  | .quantity q =>
    match total with
    | none => True
    | some tq =>
      (convFactor false q tq = none ∧ convFactor true q tq = none) ∨
      (0 < tq.value.val ∧ 0 ≤ q.value.val ∧ ∃ cF cQ, convFactor false q tq = some cF ∧
        convFactor true q tq = some cQ ∧ cF.val = cQ.val ∧ 0 ≤ cF.val)
  | .proportion (some v) _ _ _ => 0 ≤ v.val
  | .proportion none _ _ _ => False

/-- the float state tracks the exact state within `k` roundings -/
structure Tracks (k : Nat) (stF stQ : SumState) : Prop where
  kind : stF.used.kind = .flt
  near : Near k stF.used.val stQ.used.val
  problem : stF.problem = stQ.problem
  lints : stF.lints = stQ.lints

theorem tracks_init : Tracks 7 ({} : SumState) ({} : SumState) := ⟨rfl, Near.zero 7, rfl, rfl⟩

/-- a use that is covered when the exact proportion accumulated so far is `u`, `k` roundings in: a `PlainUse`,
    or a remainder ("the rest") met when `u` is off `1` by those `k` roundings (the remainder rule compares the
    accumulated proportion with `1`) -/
def UseOK (total : Option Quantity) (k : Nat) (u : Rat) (a : Amount) : Prop :=
  PlainUse total a ∨ (isRemainder a = true ∧ (rndW ^ k * u < 1 ∨ rndW ^ k < u))

/-- every use of the list is covered, given the exact proportion accumulated before it -/
def Covered (total : Option Quantity) : Nat → Rat → List Amount → Prop
  | _, _, [] => True
  | k, u, a :: as => UseOK total k u a ∧ Covered total (k + 1) (stepUsedQ total u a) as

theorem covered_of_plain {total : Option Quantity} : ∀ (amounts : List Amount) (k : Nat) (u : Rat),
    (∀ a ∈ amounts, PlainUse total a) → Covered total k u amounts
  | [], _, _, _ => trivial
  | a :: as, _, _, h =>
    ⟨Or.inl (h a List.mem_cons_self), covered_of_plain as _ _ (fun b hb => h b (List.mem_cons_of_mem _ hb))⟩

theorem sumStep_tracks_plain {total : Option Quantity} {k : Nat} (hk : 7 ≤ k) {stF stQ : SumState}
    (h : Tracks k stF stQ) {a : Amount} (ha : PlainUse total a) :
    ∃ stF' stQ', sumStep false total stF a = some stF' ∧ sumStep true total stQ a = some stQ' ∧
      Tracks (k + 1) stF' stQ' := by
  have hw := h.near.weaken (Nat.le_succ k)
  cases a with
  | quantity q =>
    cases total with
    | none =>
      exact ⟨_, _, sumStep_quantity_none false stF q, sumStep_quantity_none true stQ q,
        ⟨h.kind, hw, rfl, by simp [h.lints]⟩⟩
    | some tq =>
      rcases ha with ⟨hF, hQ⟩ | ⟨ht, hq, cF, cQ, hcF, hcQ, hc, hc0⟩
      · refine ⟨{ stF with problem := true, lints := stF.lints ++ [.incompatibleUnits] },
          { stQ with problem := true, lints := stQ.lints ++ [.incompatibleUnits] }, ?_, ?_,
          ⟨h.kind, hw, rfl, by simp [h.lints]⟩⟩
        · rw [sumStep_quantity_some, hF]
        · rw [sumStep_quantity_some, hQ]
      · have hd := Num.div_isSome (q.value.mul cF) tq.value (Rat.ne_of_gt ht)
        obtain ⟨x, hx⟩ := Option.isSome_iff_exists.1 hd
        have hne : (tq.value.val == 0) = false := by simpa using Rat.ne_of_gt ht
        have nx : Near 7 x.toFlt (q.value.val * cQ.val / tq.value.val) := by
          have h1 := mul_near (Near.refl hq) (Near.refl hc0)
          have h2 := div_near h1 (Near.refl (Rat.le_of_lt ht)) ht ht hx
          rw [hc] at h2
          exact toFlt_near h2
        obtain ⟨n1, n2⟩ := add_near h.kind h.near (nx.weaken hk)
        refine ⟨{ stF with used := stF.used.add x },
          { stQ with used := ⟨stQ.used.val + q.value.val * cQ.val / tq.value.val, .frac⟩ }, ?_, ?_, ?_⟩
        · rw [sumStep_quantity_some, hcF]
          simp only [numDiv, numMul, numAdd, Bool.false_eq_true, if_false, hx]
        · rw [sumStep_quantity_some, hcQ]
          simp only [numDiv, numMul, numAdd, if_true, hne, Bool.false_eq_true, if_false]
        · exact ⟨n2, n1, h.problem, h.lints⟩
  | proportion v p w s =>
    cases v with
    | none => exact ha.elim
    | some v =>
      have nx : Near 7 v.toFlt v.val := (toFlt_near (Near.refl ha)).weaken (by omega)
      obtain ⟨n1, n2⟩ := add_near h.kind h.near (nx.weaken hk)
      exact ⟨{ stF with used := stF.used.add v }, { stQ with used := ⟨stQ.used.val + v.val, .frac⟩ }, rfl, rfl,
        ⟨n2, n1, h.problem, h.lints⟩⟩

theorem sumStep_tracks {total : Option Quantity} {k : Nat} (hk : 7 ≤ k) {stF stQ : SumState}
    (h : Tracks k stF stQ) {a : Amount} (ha : UseOK total k stQ.used.val a) :
    ∃ stF' stQ', sumStep false total stF a = some stF' ∧ sumStep true total stQ a = some stQ' ∧
      Tracks (k + 1) stF' stQ' := by
  have hw := h.near.weaken (Nat.le_succ k)
  rcases ha with ha | ⟨hrem, hoff⟩
  · exact sumStep_tracks_plain hk h ha
  · cases a with
    | quantity q => simp [isRemainder] at hrem
    | proportion v p w s =>
      cases v with
      | some v => simp [isRemainder] at hrem
      | none =>
        obtain ⟨hF0, hS0, n1, n2⟩ := h.near
        have hge := rndW_pow_ge_one k
        rcases hoff with hlt | hgt
        · have hS1 : stQ.used.val < 1 := by have := Rat.mul_le_mul_of_nonneg_right hge hS0; grind
          have hF1 : stF.used.val < 1 := by grind
          have a1 : ¬ stF.used.val ≥ 1 := by grind
          have a2 : ¬ stF.used.val > 1 := by grind
          have b1 : ¬ stQ.used.val ≥ 1 := by grind
          have b2 : ¬ stQ.used.val > 1 := by grind
          refine ⟨{ stF with used := ⟨1, .flt⟩ }, { stQ with used := ⟨1, .flt⟩ }, ?_, ?_,
            ⟨rfl, (Near.refl (show (0 : Rat) ≤ 1 by decide)).weaken (by omega), h.problem, h.lints⟩⟩
          · simp only [sumStep, a1, a2, if_false]
          · simp only [sumStep, b1, b2, if_false]
        · have hS1 : stQ.used.val > 1 := by grind
          have hF1 : stF.used.val > 1 := by
            have hpos : 0 < rndW ^ k := by grind
            have : rndW ^ k * 1 < rndW ^ k * stF.used.val := by grind
            exact Rat.lt_of_mul_lt_mul_left this (Rat.le_of_lt hpos)
          have a1 : stF.used.val ≥ 1 := by grind
          have b1 : stQ.used.val ≥ 1 := by grind
          refine ⟨{ stF with problem := true, lints := stF.lints ++ [.nonPositiveRemainder] },
            { stQ with problem := true, lints := stQ.lints ++ [.nonPositiveRemainder] }, ?_, ?_,
            ⟨h.kind, hw, rfl, by simp [h.lints]⟩⟩
          · simp only [sumStep, a1, hF1, if_true]
          · simp only [sumStep, b1, hS1, if_true]

theorem sumRefs_tracks {total : Option Quantity} (hz : ∀ tq, total = some tq → tq.value.val ≠ 0) :
    ∀ (amounts : List Amount) {k : Nat} (_ : 7 ≤ k) {stF stQ : SumState}, Tracks k stF stQ →
      Covered total k stQ.used.val amounts →
      ∃ stF' stQ', sumRefs false total stF amounts = some stF' ∧ sumRefs true total stQ amounts = some stQ' ∧
        Tracks (k + amounts.length) stF' stQ'
  | [], k, _, stF, stQ, h, _ => ⟨stF, stQ, rfl, rfl, h⟩
  | a :: as, k, hk, stF, stQ, h, hall => by
    obtain ⟨sF, sQ, e1, e2, h'⟩ := sumStep_tracks hk h hall.1
    obtain ⟨sQ2, f1, f2, _, _⟩ := sumStep_spec total hz stQ a
    rw [e2] at f1; cases f1
    have hc := hall.2
    rw [← f2] at hc
    obtain ⟨sF', sQ', g1, g2, h''⟩ := sumRefs_tracks hz as (show 7 ≤ k + 1 by omega) h' hc
    refine ⟨sF', sQ', by simp [sumRefs, e1, g1], by simp [sumRefs, e2, g2], ?_⟩
    have : k + 1 + as.length = k + (a :: as).length := by simp; omega
    rw [← this]; exact h''

/-- **the float accumulation is within `n + 7` roundings of the exact one**: both layers raise the same lints on
    the way, and the accumulated proportions are within a factor `(1 + 2^-53)^(n+7)` of each other -/
theorem floatSum_near {total : Option Quantity} (hz : ∀ tq, total = some tq → tq.value.val ≠ 0)
    (amounts : List Amount) (hall : Covered total 7 0 amounts) :
    ∃ stF stQ, sumRefs false total {} amounts = some stF ∧ sumRefs true total {} amounts = some stQ ∧
      Near (amounts.length + 7) stF.used.val stQ.used.val ∧
      stQ.used.val = usedQ total 0 amounts ∧
      stF.problem = stQ.problem ∧ stF.lints = stQ.lints ∧
      stQ.problem = !(lintsQ total 0 amounts).isEmpty := by
  obtain ⟨stF, stQ, e1, e2, h⟩ := sumRefs_tracks hz amounts (Nat.le_refl 7) tracks_init hall
  obtain ⟨st, c1, c2, _, c4⟩ := sumRefs_closed total hz amounts
  rw [e2] at c1; cases c1
  refine ⟨stF, stQ, e1, e2, ?_, c2, h.problem, h.lints, c4⟩
  have := h.near
  rwa [Nat.add_comm] at this

-- ================================================================ the verdict: pure arithmetic
/-- pure arithmetic: clearly inside the threshold -/
theorem core_inside {F S e eS A D T : Rat} (hS : 0 ≤ S) (he0 : 0 ≤ e) (he : e ≤ 1 / 100)
    (heS : eS = e * S) (h1 : F - S ≤ eS) (h2 : S - F ≤ eS)
    (hA : A = 1 - F ∨ A = F - 1)
    (hD : D ≤ 9007199254740993 / 9007199254740992 * A)
    (hT : 5764607523034235 / 288230376151711744 * F ≤ 9007199254740993 / 9007199254740992 * T)
    (hin : (if S < 1 then 1 - S else S - 1) + (2 * e + 1 / 9007199254740992) * (if S < 1 then 1 else S)
             < 2 / 100 * (if S < 1 then 1 else S)) :
    D ≤ 5764607523034235 / 288230376151711744 ∨ D ≤ T := by
  have p1 : 0 ≤ eS := by rw [heS]; exact Rat.mul_nonneg he0 hS
  have p2 : eS ≤ 1 / 100 * S := by rw [heS]; exact Rat.mul_le_mul_of_nonneg_right he hS
  by_cases hs : S < 1
  · left
    simp only [hs, if_true] at hin
    have p3 : eS ≤ e := by
      have := Rat.mul_le_mul_of_nonneg_left (Rat.le_of_lt hs) he0
      rw [heS]; grind
    simp only [Rat.div_def] at *
    rcases hA with hA | hA <;> grind
  · right
    simp only [hs, if_false] at hin
    have e1 : (2 * e + 1 / 9007199254740992) * S = 2 * eS + 1 / 9007199254740992 * S := by rw [heS]; grind
    rw [e1] at hin
    simp only [Rat.div_def] at *
    rcases hA with hA | hA <;> grind

/-- pure arithmetic: clearly outside the threshold -/
theorem core_outside {F S e eS A D T : Rat} (hS : 0 ≤ S) (he0 : 0 ≤ e) (he : e ≤ 1 / 100)
    (heS : eS = e * S) (h1 : F - S ≤ eS) (h2 : S - F ≤ eS)
    (hA : A = 1 - F ∨ A = F - 1) (hA0 : 0 ≤ A)
    (hD : A ≤ 9007199254740993 / 9007199254740992 * D)
    (hT : T ≤ 9007199254740993 / 9007199254740992 * (5764607523034235 / 288230376151711744 * F))
    (hout : 2 / 100 * (if S < 1 then 1 else S) + (2 * e + 1 / 9007199254740992) * (if S < 1 then 1 else S)
             < (if S < 1 then 1 - S else S - 1)) :
    F ≠ 1 ∧ 5764607523034235 / 288230376151711744 < D ∧ T < D ∧ (F < 1 ↔ S < 1) := by
  have p1 : 0 ≤ eS := by rw [heS]; exact Rat.mul_nonneg he0 hS
  have p2 : eS ≤ 1 / 100 * S := by rw [heS]; exact Rat.mul_le_mul_of_nonneg_right he hS
  by_cases hs : S < 1
  · simp only [hs, if_true] at hout
    have p3 : eS ≤ e := by
      have := Rat.mul_le_mul_of_nonneg_left (Rat.le_of_lt hs) he0
      rw [heS]; grind
    simp only [Rat.div_def] at *
    rcases hA with hA | hA <;> grind
  · simp only [hs, if_false] at hout
    have e1 : (2 * e + 1 / 9007199254740992) * S = 2 * eS + 1 / 9007199254740992 * S := by rw [heS]; grind
    rw [e1] at hout
    simp only [Rat.div_def] at *
    rcases hA with hA | hA <;> grind

-- ================================================================ the verdict: `math.isclose(used, 1, rel_tol=0.02)`
theorem relTol2_val : relTol2 = 5764607523034235 / 288230376151711744 := by decide +kernel

/-- `|toDouble x| = toDouble |x|` -/
theorem abs_toDouble (x : Rat) :
    (if toDouble x < 0 then -toDouble x else toDouble x) = toDouble (if x < 0 then -x else x) := by
  by_cases hx : x < 0
  · have h1 : 0 < toDouble (-x) := toDouble_pos (by grind)
    rw [toDouble_neg] at h1
    have h2 : toDouble x < 0 := by grind
    simp only [hx, h2, if_true, toDouble_neg]
  · have h1 := toDouble_nonneg (show 0 ≤ x by grind)
    have h2 : ¬ toDouble x < 0 := by grind
    simp only [hx, h2, if_false]

/-- the comparison `lint.py` performs, for a non-negative accumulated proportion -/
theorem isclose_one_eq {F : Rat} (hF : 0 ≤ F) :
    isclose F 1 relTol2 =
      (F == 1 || (decide (toDouble (if 1 - F < 0 then -(1 - F) else 1 - F) ≤ relTol2) ||
                  decide (toDouble (if 1 - F < 0 then -(1 - F) else 1 - F) ≤ toDouble (relTol2 * F)))) := by
  have h1 : ¬ ((1 : Rat) < 0) := by decide
  have h2 : ¬ (F < 0) := by grind
  have h3 : toDouble (relTol2 * 1) = relTol2 := by
    rw [Rat.mul_one]; exact toDouble_idem _
  unfold isclose
  by_cases h : (F == 1) = true
  · simp [h]
  · simp only [h, h1, h2, if_false, abs_toDouble, h3, Bool.false_or, Bool.false_eq_true]

/-- clearly inside or clearly outside the 2 % rule, by a relative margin `δ` -/
def OffThreshold (δ u : Rat) : Prop :=
  absQ (u - 1) + δ * max u 1 < (2 / 100 : Rat) * max u 1 ∨ (2 / 100 : Rat) * max u 1 + δ * max u 1 < absQ (u - 1)

/-- margin that covers `k` roundings in the accumulation plus those of the comparison: `(2k + 1)·2^-52` -/
def offMargin (k : Nat) : Rat := (2 * (k : Rat) + 1) / 4503599627370496

theorem off_inside_if {δ δ' S : Rat} (hδ : δ' ≤ δ) (hS : 0 ≤ S)
    (h : absQ (S - 1) + δ * max S 1 < (2 / 100 : Rat) * max S 1) :
    (if S < 1 then 1 - S else S - 1) + δ' * (if S < 1 then 1 else S) < 2 / 100 * (if S < 1 then 1 else S) := by
  unfold absQ at h
  by_cases hs : S < 1
  · have h1 : S - 1 < 0 := by grind
    have h3 : max S 1 = 1 := by grind
    simp only [hs, h1, h3, if_true] at h ⊢
    grind
  · have h1 : ¬ (S - 1 < 0) := by grind
    have h3 : max S 1 = S := by grind
    simp only [hs, h1, h3, if_false] at h ⊢
    have := Rat.mul_le_mul_of_nonneg_right hδ hS
    grind

theorem off_outside_if {δ δ' S : Rat} (hδ : δ' ≤ δ) (hS : 0 ≤ S)
    (h : (2 / 100 : Rat) * max S 1 + δ * max S 1 < absQ (S - 1)) :
    2 / 100 * (if S < 1 then 1 else S) + δ' * (if S < 1 then 1 else S) < (if S < 1 then 1 - S else S - 1) := by
  unfold absQ at h
  by_cases hs : S < 1
  · have h1 : S - 1 < 0 := by grind
    have h3 : max S 1 = 1 := by grind
    simp only [hs, h1, h3, if_true] at h ⊢
    grind
  · have h1 : ¬ (S - 1 < 0) := by grind
    have h3 : max S 1 = S := by grind
    simp only [hs, h1, h3, if_false] at h ⊢
    have := Rat.mul_le_mul_of_nonneg_right hδ hS
    grind

/-- off the threshold, exact closeness is decided by the margin's side -/
theorem closeQ_of_inside {δ S : Rat} (hδ : 0 ≤ δ)
    (h : absQ (S - 1) + δ * max S 1 < (2 / 100 : Rat) * max S 1) : CloseQ S := by
  unfold CloseQ
  have : 0 ≤ δ * max S 1 := Rat.mul_nonneg hδ (by grind)
  grind

theorem not_closeQ_of_outside {δ S : Rat} (hδ : 0 ≤ δ)
    (h : (2 / 100 : Rat) * max S 1 + δ * max S 1 < absQ (S - 1)) : ¬ CloseQ S := by
  unfold CloseQ
  have : 0 ≤ δ * max S 1 := Rat.mul_nonneg hδ (by grind)
  grind

/-- **off the threshold the binary64 verdict is the exact verdict**: if the float proportion `F` is within `K`
    roundings of the exact one `S`, and `S` is off the 2 % threshold by the margin `(2K+1)·2^-52`, then
    `isclose(F, 1, rel_tol=0.02)` and the under/over classification come out as over the rationals -/
theorem sumVerdict_agree {K : Nat} {F S : Rat} (h : Near K F S) (hK : K ≤ 35184372088832)
    (hoff : OffThreshold (offMargin K) S) : sumVerdict false F = sumVerdict true S := by
  have hF := h.1
  have hS := h.2.1
  obtain ⟨h1, h2⟩ := h.err
  have hlin := rndW_pow_le_linear K (by omega)
  have hge := rndW_pow_ge_one K
  have hKq : ((K : Nat) : Rat) ≤ 35184372088832 := by
    have := Rat.natCast_le_natCast.2 hK
    rwa [show ((35184372088832 : Nat) : Rat) = 35184372088832 from rfl] at this
  have hK0 : (0 : Rat) ≤ (K : Rat) := by exact_mod_cast Nat.zero_le K
  generalize he : rndW ^ K - 1 = e at *
  have he0 : 0 ≤ e := by grind
  have heK : e ≤ (K : Rat) / 4503599627370496 := by grind
  have he1 : e ≤ 1 / 100 := by simp only [Rat.div_def] at *; grind
  have hδ : 2 * e + 1 / 9007199254740992 ≤ offMargin K := by
    unfold offMargin; simp only [Rat.div_def] at *; grind
  have hδ0 : 0 ≤ offMargin K := by grind
  -- the comparison's own roundings
  generalize hAdef : (if 1 - F < 0 then -(1 - F) else 1 - F) = A
  have hA0 : 0 ≤ A := by rw [← hAdef]; split <;> grind
  have hA : A = 1 - F ∨ A = F - 1 := by rw [← hAdef]; split <;> grind
  have nD := Near.of_toDouble hA0
  have hr0 : (0 : Rat) ≤ relTol2 := by rw [relTol2_val]; decide +kernel
  have nT := Near.of_toDouble (Rat.mul_nonneg hr0 hF)
  obtain ⟨_, _, d1, d2⟩ := nD
  obtain ⟨_, _, t1, t2⟩ := nT
  simp only [Rat.pow_one, rndW] at d1 d2 t1 t2
  have vF : sumVerdict false F =
      if (F == 1 || (decide (toDouble A ≤ relTol2) || decide (toDouble A ≤ toDouble (relTol2 * F)))) = true
      then [] else if F < 1 then [.notUsedUp] else [.usedTooMuch] := by
    unfold sumVerdict
    simp only [Bool.false_eq_true, if_false, isclose_one_eq hF, hAdef]
  rw [vF, sumVerdict_eq]
  rw [relTol2_val] at *
  rcases hoff with hin | hout
  · have hc := closeQ_of_inside hδ0 hin
    have := core_inside hS he0 he1 rfl h1 h2 hA d1 t2 (off_inside_if hδ hS hin)
    have hb : (F == 1 || (decide (toDouble A ≤ 5764607523034235 / 288230376151711744) ||
        decide (toDouble A ≤ toDouble (5764607523034235 / 288230376151711744 * F)))) = true := by
      rcases this with h | h <;> simp [h]
    simp only [hb, hc, if_true]
  · have hc := not_closeQ_of_outside hδ0 hout
    obtain ⟨c1, c2, c3, c4⟩ := core_outside hS he0 he1 rfl h1 h2 hA hA0 d2 t1 (off_outside_if hδ hS hout)
    have hb : ¬ (F == 1 || (decide (toDouble A ≤ 5764607523034235 / 288230376151711744) ||
        decide (toDouble A ≤ toDouble (5764607523034235 / 288230376151711744 * F)))) = true := by
      have n2 : ¬ toDouble A ≤ 5764607523034235 / 288230376151711744 := by grind
      have n3 : ¬ toDouble A ≤ toDouble (5764607523034235 / 288230376151711744 * F) := by grind
      simp [c1, n2, n3]
    simp only [hb, hc, if_false]
    by_cases hs : S < 1
    · simp [hs, c4.2 hs]
    · have : ¬ F < 1 := fun hf => hs (c4.1 hf)
      simp [hs, this]

-- ================================================================ C20.4 (off-threshold part): the whole linter
/-- what the analysis asks of one output of a sub recipe (its total and the uses of it): uses covered
    (`Covered`: plain uses, and remainders met off `1`), and, unless a lint is raised on the way (then no verdict
    is computed), the exact accumulated proportion off the threshold by the margin for `n + 7` roundings, i.e.
    `(2n + 15)·2^-52` relative to `max used 1` -/
def GroupOff (p : Option Quantity × List Amount) : Prop :=
  Covered p.1 7 0 p.2 ∧ p.2.length ≤ 1000000000000 ∧
    (lintsQ p.1 0 p.2 = [] → OffThreshold (offMargin (p.2.length + 7)) (usedQ p.1 0 p.2))

/-- without remainders `GroupOff` asks for plain uses and the margin only -/
theorem groupOff_of_plain {total : Option Quantity} {amounts : List Amount}
    (hall : ∀ a ∈ amounts, PlainUse total a) (hn : amounts.length ≤ 1000000000000)
    (hoff : lintsQ total 0 amounts = [] → OffThreshold (offMargin (amounts.length + 7)) (usedQ total 0 amounts)) :
    GroupOff (total, amounts) := ⟨covered_of_plain _ _ _ hall, hn, hoff⟩

/-- one sub recipe output: the float loop and verdict report what the exact ones report -/
theorem group_agree {total : Option Quantity} (hz : ∀ tq, total = some tq → tq.value.val ≠ 0)
    (amounts : List Amount) (h : GroupOff (total, amounts)) :
    ∃ stF stQ, sumRefs false total {} amounts = some stF ∧ sumRefs true total {} amounts = some stQ ∧
      stF.lints ++ (if stF.problem then [] else sumVerdict false stF.used.val) =
      stQ.lints ++ (if stQ.problem then [] else sumVerdict true stQ.used.val) := by
  obtain ⟨hall, hn, hoff⟩ := h
  simp only at hall hn hoff
  obtain ⟨stF, stQ, e1, e2, hnear, hval, hp, hl, hpq⟩ := floatSum_near hz amounts hall
  refine ⟨stF, stQ, e1, e2, ?_⟩
  rw [hp, hl]
  by_cases hprob : stQ.problem = true
  · simp [hprob]
  · have hnil : lintsQ total 0 amounts = [] := by
      rw [hpq] at hprob
      simpa using hprob
    have ho := hoff hnil
    rw [← hval] at ho
    simp only [hprob]
    rw [sumVerdict_agree hnear (by omega) ho]

theorem sumChecks_go_agree : ∀ l : List (Option Quantity × List Amount),
    (∀ p ∈ l, ∀ tq, p.1 = some tq → tq.value.val ≠ 0) → (∀ p ∈ l, GroupOff p) →
    sumChecks.go false l = sumChecks.go true l
  | [], _, _ => rfl
  | (total, amounts) :: rest, hz, h => by
    obtain ⟨stF, stQ, e1, e2, hm⟩ :=
      group_agree (hz (total, amounts) List.mem_cons_self) amounts (h (total, amounts) List.mem_cons_self)
    have ih := sumChecks_go_agree rest (fun p hp => hz p (List.mem_cons_of_mem _ hp))
      (fun p hp => h p (List.mem_cons_of_mem _ hp))
    simp only [sumChecks.go, e1, e2, ih, hm]

/-- **C20.4 (off-threshold part): off the threshold the binary64 rule is the exact rule.** If, for every sub
    recipe output that is referred to, the uses are covered (quantities with the conversion factor both layers
    agree on, explicit proportions, uses that both layers reject, remainders met when the proportion accumulated
    so far is off `1` by the roundings so far) and, where a verdict is computed, the exact accumulated proportion is off the 2 % threshold by `(2n + 15)·2^-52` (relative; `n`
    uses), then the linter in binary64 reports exactly what the exact-rational reading of the rule reports -/
theorem lintF_eq_lintQ_off_threshold (blocks : List Block) (h : ∀ p ∈ lintGroups blocks, GroupOff p) :
    lintF blocks = lintQ blocks := by
  unfold lintF lintQ lintWith
  rw [sumChecks_eq, sumChecks_eq, sumChecks_go_agree _ _ h]
  intro p hp tq htq
  obtain ⟨s, hs⟩ := lintGroups_total hp
  exact totalQuantity_nonzero (hs ▸ htq)

-- ================================================================ reading the hypotheses
/-- a non-negative quantity without unit, used from a positive total without unit, is covered -/
theorem plainUse_no_units {tq q : Quantity} (ht : 0 < tq.value.val) (hq : 0 ≤ q.value.val)
    (h1 : q.unit = none) (h2 : tq.unit = none) : PlainUse (some tq) (.quantity q) := by
  refine Or.inr ⟨ht, hq, ⟨1, .flt⟩, ⟨1, .flt⟩, ?_, ?_, rfl, by decide⟩ <;> simp [convFactor, h1, h2]

/-- a use is covered whenever both layers look up the same non-negative conversion factor -/
theorem plainUse_of_factor {tq q : Quantity} (ht : 0 < tq.value.val) (hq : 0 ≤ q.value.val) {cF cQ : Num}
    (hF : convFactor false q tq = some cF) (hQ : convFactor true q tq = some cQ) (hc : cF.val = cQ.val)
    (h0 : 0 ≤ cF.val) : PlainUse (some tq) (.quantity q) := Or.inr ⟨ht, hq, cF, cQ, hF, hQ, hc, h0⟩

/-- `floatSum_err`: the accumulated float proportion is within `(n + 7)·2^-52`, relative, of the exact one -/
theorem floatSum_err {total : Option Quantity} (hz : ∀ tq, total = some tq → tq.value.val ≠ 0)
    (amounts : List Amount) (hall : Covered total 7 0 amounts) (hn : amounts.length ≤ 1000000000000) :
    ∃ stF, sumRefs false total {} amounts = some stF ∧
      (stF.used.val - usedQ total 0 amounts).abs ≤
        ((amounts.length : Rat) + 7) / 4503599627370496 * usedQ total 0 amounts := by
  obtain ⟨stF, stQ, e1, _, hnear, hval, _⟩ := floatSum_near hz amounts hall
  refine ⟨stF, e1, ?_⟩
  rw [← hval]
  obtain ⟨h1, h2⟩ := hnear.err
  have hlin := rndW_pow_le_linear (amounts.length + 7) (by omega)
  have hS := hnear.2.1
  have hc : ((amounts.length + 7 : Nat) : Rat) = (amounts.length : Rat) + 7 := by simp [Rat.natCast_add]
  rw [hc] at hlin
  have := Rat.mul_le_mul_of_nonneg_right
    (show rndW ^ (amounts.length + 7) - 1 ≤ ((amounts.length : Rat) + 7) / 4503599627370496 by grind) hS
  rw [abs_le_iff]
  grind

/-- under-use (`used ≤ 1`): "off the threshold" says the exact relative shortfall `1 - used = (t - Σaᵢ)/t` is
    further than `δ` from `1/50` -/
theorem offThreshold_under {δ u : Rat} (hu : u ≤ 1) :
    OffThreshold δ u ↔ δ < ((1 - u) - 1 / 50).abs := by
  unfold OffThreshold absQ
  have h3 : max u 1 = 1 := by grind
  rw [h3]
  simp only [Rat.abs]
  split <;> split <;> grind

/-- over-use (`used ≥ 1`): the excess `used - 1 = (Σaᵢ - t)/t` is further than `δ·used` from `used/50` -/
theorem offThreshold_over {δ u : Rat} (hu : 1 ≤ u) :
    OffThreshold δ u ↔ δ * u < ((u - 1) - u / 50).abs := by
  unfold OffThreshold absQ
  have h3 : max u 1 = u := by grind
  rw [h3]
  have h1 : ¬ (u - 1 < 0) := by grind
  simp only [Rat.abs, Rat.div_def, h1, if_false]
  by_cases h : 0 ≤ u - 1 - u * 50⁻¹
  · simp only [h, if_true]; grind
  · simp only [h, if_false]; grind

-- ================================================================ a checker for the hypotheses
instance (δ u : Rat) : Decidable (OffThreshold δ u) := inferInstanceAs (Decidable (_ ∨ _))

/-- `PlainUse`, decided by evaluation -/
def plainUseB (total : Option Quantity) : Amount → Bool
  | .quantity q =>
    match total with
    | none => true
    | some tq =>
      match convFactor false q tq, convFactor true q tq with
      | none, none => true
      | some cF, some cQ =>
        decide (0 < tq.value.val) && decide (0 ≤ q.value.val) && decide (cF.val = cQ.val) && decide (0 ≤ cF.val)
      | _, _ => false
  | .proportion (some v) _ _ _ => decide (0 ≤ v.val)
  | .proportion none _ _ _ => false

/-- `Covered`, decided by evaluation -/
def coveredB (total : Option Quantity) : Nat → Rat → List Amount → Bool
  | _, _, [] => true
  | k, u, a :: as =>
    (plainUseB total a || (isRemainder a && (decide (rndW ^ k * u < 1) || decide (rndW ^ k < u)))) &&
      coveredB total (k + 1) (stepUsedQ total u a) as

/-- `GroupOff`, decided by evaluation -/
def groupOffB (p : Option Quantity × List Amount) : Bool :=
  coveredB p.1 7 0 p.2 && decide (p.2.length ≤ 1000000000000) &&
    (!(lintsQ p.1 0 p.2).isEmpty || decide (OffThreshold (offMargin (p.2.length + 7)) (usedQ p.1 0 p.2)))

theorem plainUseB_sound {total : Option Quantity} {a : Amount} (h : plainUseB total a = true) :
    PlainUse total a := by
  cases a with
  | quantity q =>
    cases total with
    | none => trivial
    | some tq =>
      simp only [plainUseB] at h
      cases hF : convFactor false q tq with
      | none =>
        cases hQ : convFactor true q tq with
        | none => exact Or.inl ⟨hF, hQ⟩
        | some cQ => simp [hF, hQ] at h
      | some cF =>
        cases hQ : convFactor true q tq with
        | none => simp [hF, hQ] at h
        | some cQ =>
          simp only [hF, hQ, Bool.and_eq_true, decide_eq_true_eq] at h
          exact Or.inr ⟨h.1.1.1, h.1.1.2, cF, cQ, hF, hQ, h.1.2, h.2⟩
  | proportion v p w s =>
    cases v with
    | none => simp [plainUseB] at h
    | some v =>
      have : 0 ≤ v.val := by simpa [plainUseB] using h
      exact this

theorem coveredB_sound {total : Option Quantity} : ∀ (amounts : List Amount) (k : Nat) (u : Rat),
    coveredB total k u amounts = true → Covered total k u amounts
  | [], _, _, _ => trivial
  | a :: as, k, u, h => by
    simp only [coveredB, Bool.and_eq_true, Bool.or_eq_true, decide_eq_true_eq] at h
    refine ⟨?_, coveredB_sound as _ _ h.2⟩
    rcases h.1 with h1 | h1
    · exact Or.inl (plainUseB_sound h1)
    · exact Or.inr h1

theorem groupOffB_sound {p : Option Quantity × List Amount} (h : groupOffB p = true) : GroupOff p := by
  simp only [groupOffB, Bool.and_eq_true, Bool.or_eq_true, decide_eq_true_eq,
    Bool.not_eq_true'] at h
  obtain ⟨⟨hall, hn⟩, hoff⟩ := h
  refine ⟨coveredB_sound _ _ _ hall, hn, fun hnil => ?_⟩
  rcases hoff with h | h
  · rw [hnil] at h; simp at h
  · exact h

/-- C20.4 (off-threshold part) with the hypotheses checked by evaluation -/
theorem lintF_eq_lintQ_of_check (blocks : List Block) (h : (lintGroups blocks).all groupOffB = true) :
    lintF blocks = lintQ blocks :=
  lintF_eq_lintQ_off_threshold blocks fun p hp => groupOffB_sound (List.all_eq_true.1 h p hp)

-- ================================================================ sanity examples
example : toDouble (1 / 10) = 3602879701896397 / 36028797018963968 := by decide +kernel
example : toDouble (mkRat 2 100) ≠ 1 / 50 ∧ (toDouble (mkRat 2 100) - 1 / 50).abs ≤ 1 / 50 / 9007199254740992 := by
  decide +kernel
example : toDouble 9007199254740993 = 9007199254740992 ∧ toDouble 9007199254740995 = 9007199254740996 := by
  decide +kernel

/-- `100 g x` as an implicit single-ingredient sub recipe -/
def bSub : Tree :=
  .sub (.ingredient [.text wX] (some ⟨⟨100, .int⟩, some wG, " ".toList, []⟩)) [[.text wX]] false
def bUse (v : Rat) (k : NumKind) : Amount := .quantity ⟨⟨v, k⟩, some wG, " ".toList, []⟩
/-- `100 g x`, then `mix(a g x, b g x)` -/
def bBlocks (a b : Amount) : List Block := [[bSub, .step [.text "mix".toList] [.reference bSub 0 a, .reference bSub 0 b]]]

/-- 97 % used: 1 % beyond the threshold. Both layers report `sub_recipe_not_used_up` -/
example : lintF (bBlocks (bUse 49 .int) (bUse 48 .int)) = some [.notUsedUp] ∧
    lintQ (bBlocks (bUse 49 .int) (bUse 48 .int)) = some [.notUsedUp] := by decide +kernel
/-- 99 % used: 1 % inside the threshold. Neither layer reports anything (floats `49.5` and `49.5`) -/
example : lintF (bBlocks (bUse (99 / 2) .flt) (bUse (99 / 2) .flt)) = some [] ∧
    lintQ (bBlocks (bUse (99 / 2) .flt) (bUse (99 / 2) .flt)) = some [] := by decide +kernel
/-- the hypotheses of the theorem hold for these (non-vacuity), also with float and fraction amounts -/
example : (lintGroups (bBlocks (bUse 49 .int) (bUse 48 .int))).all groupOffB = true := by decide +kernel
example : lintF (bBlocks (bUse (toDouble (mkRat 491 10)) .flt) (bUse (1439 / 30) .frac)) =
    lintQ (bBlocks (bUse (toDouble (mkRat 491 10)) .flt) (bUse (1439 / 30) .frac)) :=
  lintF_eq_lintQ_of_check _ (by decide +kernel)
/-- 103 % used: `sub_recipe_used_too_much` in both layers -/
example : lintF (bBlocks (bUse 60 .int) (bUse 43 .int)) = lintQ (bBlocks (bUse 60 .int) (bUse 43 .int)) :=
  lintF_eq_lintQ_of_check _ (by decide +kernel)
/-- a sub recipe of two ingredients (no total quantity), used by proportions: `0.5` and `0.47` of it -/
def bSauce : Tree :=
  .sub (.step [.text "sauce".toList] [.ingredient [.text wX] none, .ingredient [.text wG] none])
    [[.text "sauce".toList]] false
def bProp (v : Rat) (k : NumKind) : Amount := .proportion (some ⟨v, k⟩) false none []
def bSauceBlocks (uses : List Amount) : List Block :=
  [[bSauce, .step [.text "mix".toList] (uses.map (.reference bSauce 0 ·))]]
example : lintF (bSauceBlocks [bProp (1 / 2) .frac, bProp (toDouble (mkRat 47 100)) .flt]) = some [.notUsedUp] := by
  decide +kernel
example : lintF (bSauceBlocks [bProp (1 / 2) .frac, bProp (toDouble (mkRat 47 100)) .flt]) =
    lintQ (bSauceBlocks [bProp (1 / 2) .frac, bProp (toDouble (mkRat 47 100)) .flt]) :=
  lintF_eq_lintQ_of_check _ (by decide +kernel)
/-- a quantity of a sub recipe without total: both layers report `sub_recipe_quantity_unknown`, no verdict -/
example : lintF (bSauceBlocks [bProp (1 / 2) .frac, bUse 3 .int]) =
    lintQ (bSauceBlocks [bProp (1 / 2) .frac, bUse 3 .int]) :=
  lintF_eq_lintQ_of_check _ (by decide +kernel)
/-- a unit that does not convert (`ml` of a total in `g`): both layers report it -/
example : lintF (bBlocks (bUse 49 .int) (.quantity ⟨⟨48, .int⟩, some "ml".toList, [], []⟩)) =
    lintQ (bBlocks (bUse 49 .int) (.quantity ⟨⟨48, .int⟩, some "ml".toList, [], []⟩)) :=
  lintF_eq_lintQ_of_check _ (by decide +kernel)
/-- `kg` of a total in `g`: both layers convert by exactly 1000 -/
example : lintF (bBlocks (bUse 49 .int) (.quantity ⟨⟨48 / 1000, .frac⟩, some "kg".toList, [], []⟩)) =
    lintQ (bBlocks (bUse 49 .int) (.quantity ⟨⟨48 / 1000, .frac⟩, some "kg".toList, [], []⟩)) :=
  lintF_eq_lintQ_of_check _ (by decide +kernel)
/-- `500 g flour`, an unused `1 egg`, `mix(200 g flour, remainder of flour)` (`exBlocks` of `C20`): the remainder
    is met at 40 %, far from 1; both layers report the unused egg only -/
example : lintF exBlocks = lintQ exBlocks := lintF_eq_lintQ_of_check _ (by decide +kernel)
/-- a remainder after everything was used: both layers report `non_positive_remainder` -/
example : lintF (bBlocks (bUse 120 .int) (.proportion none false none [])) = some [.nonPositiveRemainder] ∧
    lintF (bBlocks (bUse 120 .int) (.proportion none false none [])) =
      lintQ (bBlocks (bUse 120 .int) (.proportion none false none [])) :=
  ⟨by decide +kernel, lintF_eq_lintQ_of_check _ (by decide +kernel)⟩
/-- exactly on the threshold (the recorded finding `lintF_boundary_flip`) the check fails, as it must -/
example : (lintGroups wBlocks).all groupOffB = false := by decide +kernel

end RG.C20
