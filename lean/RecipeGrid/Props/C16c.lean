import RecipeGrid.Lemmas.DataUrl
import RecipeGrid.Model.Mime
import RecipeGrid.Model.Fs
/-! C16c — the data URL of an embedded local file (`embed_local_links_as_data_urls`, the end of `rewrite_link`):
    "the standalone page embeds the identical bytes as a data URL with a matching media type".

    `Model/DataUrl.lean`: `b64encode` (CPython's `base64.b64encode`), `b64decode` (CPython 3.12's
    `base64.b64decode(s, validate=True)`, state machine of `binascii.a2b_base64(strict_mode=True)`), `b64decodeCanon`
    (the canonical RFC 4648 decoder), `dataUrl` (the f-string), `parseDataUrl` (RFC 2397 reading).

    * `b64decode_encode`, `b64decodeCanon_encode`: decoding the encoding gives the bytes back (every length);
    * `b64encode_length`, `b64encode_alphabet`, `b64encode_injective`;
    * `b64decodeCanon_eq_some_iff`: the canonical decoder accepts exactly the encoder's outputs (so it is injective);
      `b64decode_of_canon`: CPython's strict decoder accepts them too -- and more (`cpython_accepts_noncanonical_bits`,
      `cpython_accepts_extra_padding`): it is NOT injective, which does not matter for what the page embeds;
    * `b64decode_isBytes`, `b64decodeCanon_iff_cpython_and_reencode`;
    * `dataUrl_roundtrip` (`_with` any decoder that inverts the encoder), `parseDataUrlCanon_eq_some_iff`,
      `dataUrl_injective`, `dataUrl_only_file_bytes`: the embedded copy is byte-identical and is a function of the
      file's bytes (and the media type) only; the URL is the ONLY string a canonical reader reads as (type, bytes);
    * `dataUrl_attribute_safe`, `dataUrl_attribute_verbatim`: nothing in the URL needs escaping in an HTML attribute
      and lxml's serialiser writes it unchanged;
    * `guessTypeWith_mem`, `guessTypeWith_all`, `embedded_copy_identical`, `embedded_asset_identical`: with the media
      type taken from a table given as a parameter (the machine's `mime.types` files take part in the real one);
    * with CPython's built-in table (`Gen/Mime.lean`) no hypothesis is left: `embedUrl_roundtrip`,
      `embedUrl_attribute_verbatim`, `embedUrl_html_escape_fixed`, `embedUrl_only_file_bytes`;
    * `compressed_file_is_octet_stream`, `typed_file_has_no_encoding`, `guessTypeWith_eq`,
      `compressed_name_is_octet_stream`, `builtin_compressed_name_is_octet_stream`,
      `compressed_file_is_octet_stream_witness`: the code now (commit cc91d96) embeds a compressed file (`.svgz`,
      `.tar.gz`, `.txt.gz`) as `application/octet-stream`; `old_rule_mislabels_witness`: before, it was labelled with
      the media type of its uncompressed content. -/
namespace RG.C16
open RG

/-! ## base64 -/

/-- decoding (as `base64.b64decode(·, validate=True)` does) the encoding of a byte string gives the byte string -/
theorem b64decodeGo_encode (bs : List Nat) (h : isBytes bs = true) : b64decodeGo 0 0 (b64encode bs) = some bs := by
  fun_induction b64encode bs with
  | case1 a b c rest ih =>
    obtain ⟨ha, h⟩ := isBytes_cons.mp h
    obtain ⟨hb, h⟩ := isBytes_cons.mp h
    obtain ⟨hc, h⟩ := isBytes_cons.mp h
    rw [go_digit0 _ _ (by omega), go_digit1 _ _ (by omega), go_digit2 _ _ (by omega), go_digit3 _ _ (by omega), ih h]
    simp only [Option.map_some]
    have e1 : a / 4 * 4 + (a % 4 * 16 + b / 16) / 16 = a := by omega
    have e2 : (a % 4 * 16 + b / 16) % 16 * 16 + (b % 16 * 4 + c / 64) / 4 = b := by omega
    have e3 : (b % 16 * 4 + c / 64) % 4 * 64 + c % 64 = c := by omega
    rw [e1, e2, e3]
  | case2 a b =>
    obtain ⟨ha, h⟩ := isBytes_cons.mp h
    obtain ⟨hb, h⟩ := isBytes_cons.mp h
    rw [go_digit0 _ _ (by omega), go_digit1 _ _ (by omega), go_digit2 _ _ (by omega), go_pad3]
    simp only [Option.map_some]
    have e1 : a / 4 * 4 + (a % 4 * 16 + b / 16) / 16 = a := by omega
    have e2 : (a % 4 * 16 + b / 16) % 16 * 16 + (b % 16 * 4) / 4 = b := by omega
    rw [e1, e2]
  | case3 a =>
    obtain ⟨ha, h⟩ := isBytes_cons.mp h
    rw [go_digit0 _ _ (by omega), go_digit1 _ _ (by omega), go_pad2]
    simp only [Option.map_some]
    have e1 : a / 4 * 4 + (a % 4 * 16) / 16 = a := by omega
    rw [e1]
  | case4 => rfl

theorem b64encode_head_ne_pad (bs : List Nat) : (b64encode bs).head? ≠ some '=' := by
  fun_induction b64encode bs <;> simp [b64char_ne_pad]

/-- `base64.b64decode(base64.b64encode(bs), validate=True) == bs` -/
theorem b64decode_encode (bs : List Nat) (h : isBytes bs = true) : b64decode (b64encode bs) = some bs := by
  unfold b64decode
  rw [if_neg (b64encode_head_ne_pad bs)]
  exact b64decodeGo_encode bs h

/-- four characters for every three bytes, the last group padded -/
theorem b64encode_length (bs : List Nat) : (b64encode bs).length = 4 * ((bs.length + 2) / 3) := by
  fun_induction b64encode bs with
  | case1 a b c rest ih => simp only [List.length_cons, ih]; omega
  | case2 a b => simp
  | case3 a => simp
  | case4 => rfl

/-- every character of the encoding is one of `A-Z a-z 0-9 + / =` -/
theorem b64encode_alphabet (bs : List Nat) : ∀ c ∈ b64encode bs, isB64Out c = true := by
  fun_induction b64encode bs with
  | case1 a b c rest ih =>
    intro x hx
    simp only [List.mem_cons] at hx
    rcases hx with rfl | rfl | rfl | rfl | hx
    · exact isB64Out_b64char _
    · exact isB64Out_b64char _
    · exact isB64Out_b64char _
    · exact isB64Out_b64char _
    · exact ih x hx
  | case2 a b =>
    intro x hx
    simp only [List.mem_cons, List.not_mem_nil, or_false] at hx
    rcases hx with rfl | rfl | rfl | rfl
    · exact isB64Out_b64char _
    · exact isB64Out_b64char _
    · exact isB64Out_b64char _
    · decide
  | case3 a =>
    intro x hx
    simp only [List.mem_cons, List.not_mem_nil, or_false] at hx
    rcases hx with rfl | rfl | rfl | rfl
    · exact isB64Out_b64char _
    · exact isB64Out_b64char _
    · decide
    · decide
  | case4 => intro x hx; simp at hx

/-- different byte strings have different encodings -/
theorem b64encode_injective (bs bs' : List Nat) (h : isBytes bs = true) (h' : isBytes bs' = true)
    (e : b64encode bs = b64encode bs') : bs = bs' := by
  have := b64decode_encode bs h
  rw [e, b64decode_encode bs' h'] at this
  exact (Option.some.inj this).symm

/-! ## the canonical decoder -/

theorem b64decodeCanon_encode (bs : List Nat) (h : isBytes bs = true) : b64decodeCanon (b64encode bs) = some bs := by
  fun_induction b64encode bs with
  | case1 a b c rest ih =>
    obtain ⟨ha, h⟩ := isBytes_cons.mp h
    obtain ⟨hb, h⟩ := isBytes_cons.mp h
    obtain ⟨hc, h⟩ := isBytes_cons.mp h
    simp only [b64decodeCanon, b64val_b64char _ (show a / 4 < 64 by omega),
      b64val_b64char _ (show a % 4 * 16 + b / 16 < 64 by omega),
      b64val_b64char _ (show b % 16 * 4 + c / 64 < 64 by omega),
      b64val_b64char _ (show c % 64 < 64 by omega), b64char_ne_pad, if_false, ih h, Option.map_some]
    have e1 : a / 4 * 4 + (a % 4 * 16 + b / 16) / 16 = a := by omega
    have e2 : (a % 4 * 16 + b / 16) % 16 * 16 + (b % 16 * 4 + c / 64) / 4 = b := by omega
    have e3 : (b % 16 * 4 + c / 64) % 4 * 64 + c % 64 = c := by omega
    rw [e1, e2, e3]
  | case2 a b =>
    obtain ⟨ha, h⟩ := isBytes_cons.mp h
    obtain ⟨hb, h⟩ := isBytes_cons.mp h
    have e0 : (b % 16 * 4) % 4 = 0 := by omega
    simp only [b64decodeCanon, b64val_b64char _ (show a / 4 < 64 by omega),
      b64val_b64char _ (show a % 4 * 16 + b / 16 < 64 by omega),
      b64val_b64char _ (show b % 16 * 4 < 64 by omega), b64char_ne_pad, if_false, if_true, e0, and_self]
    have e1 : a / 4 * 4 + (a % 4 * 16 + b / 16) / 16 = a := by omega
    have e2 : (a % 4 * 16 + b / 16) % 16 * 16 + (b % 16 * 4) / 4 = b := by omega
    rw [e1, e2]
  | case3 a =>
    obtain ⟨ha, h⟩ := isBytes_cons.mp h
    have e0 : (a % 4 * 16) % 16 = 0 := by omega
    simp only [b64decodeCanon, b64val_b64char _ (show a / 4 < 64 by omega),
      b64val_b64char _ (show a % 4 * 16 < 64 by omega), if_true, e0, and_self]
    have e1 : a / 4 * 4 + (a % 4 * 16) / 16 = a := by omega
    rw [e1]
  | case4 => rfl

/-- what the canonical decoder accepts is a byte string, and the input is its encoding -/
theorem b64decodeCanon_sound (s : List Char) : ∀ bs, b64decodeCanon s = some bs → isBytes bs = true ∧ s = b64encode bs := by
  fun_induction b64decodeCanon s with
  | case1 => intro bs h; cases h; exact ⟨rfl, rfl⟩
  | case2 c0 c1 c3 rest v0 v1 h1 h0 hcond =>
    intro bs h; cases h
    obtain ⟨rfl, rfl, hz⟩ := hcond
    obtain ⟨l0, rfl⟩ := b64val_eq_some h0
    obtain ⟨l1, rfl⟩ := b64val_eq_some h1
    refine ⟨by simp [isBytes]; omega, ?_⟩
    have e1 : (v0 * 4 + v1 / 16) / 4 = v0 := by omega
    have e2 : (v0 * 4 + v1 / 16) % 4 * 16 = v1 := by omega
    simp only [b64encode, e1, e2]
  | case3 c0 c1 c3 rest v0 v1 h1 h0 hcond => intro bs h; cases h
  | case4 c0 c1 c2 c3 rest v0 v1 h1 h0 hpad h2 => intro bs h; cases h
  | case5 c0 c1 c2 rest v0 v1 h1 h0 hpad v2 h2 hcond =>
    intro bs h; cases h
    obtain ⟨rfl, hz⟩ := hcond
    obtain ⟨l0, rfl⟩ := b64val_eq_some h0
    obtain ⟨l1, rfl⟩ := b64val_eq_some h1
    obtain ⟨l2, rfl⟩ := b64val_eq_some h2
    refine ⟨by simp [isBytes]; omega, ?_⟩
    have e1 : (v0 * 4 + v1 / 16) / 4 = v0 := by omega
    have e2 : (v0 * 4 + v1 / 16) % 4 * 16 + (v1 % 16 * 16 + v2 / 4) / 16 = v1 := by omega
    have e3 : (v1 % 16 * 16 + v2 / 4) % 16 * 4 = v2 := by omega
    simp only [b64encode, e1, e2, e3]
  | case6 c0 c1 c2 rest v0 v1 h1 h0 hpad v2 h2 hcond => intro bs h; cases h
  | case7 c0 c1 c2 c3 rest v0 v1 h1 h0 hpad v2 h2 hpad3 h3 => intro bs h; cases h
  | case8 c0 c1 c2 c3 rest v0 v1 h1 h0 hpad v2 h2 hpad3 v3 h3 ih =>
    intro bs h
    cases hr : b64decodeCanon rest with
    | none => rw [hr] at h; cases h
    | some tl =>
      rw [hr] at h
      cases h
      obtain ⟨hb, rfl⟩ := ih tl hr
      obtain ⟨l0, rfl⟩ := b64val_eq_some h0
      obtain ⟨l1, rfl⟩ := b64val_eq_some h1
      obtain ⟨l2, rfl⟩ := b64val_eq_some h2
      obtain ⟨l3, rfl⟩ := b64val_eq_some h3
      refine ⟨by simp only [isBytes_cons]; refine ⟨by omega, by omega, by omega, hb⟩, ?_⟩
      have e1 : (v0 * 4 + v1 / 16) / 4 = v0 := by omega
      have e2 : (v0 * 4 + v1 / 16) % 4 * 16 + (v1 % 16 * 16 + v2 / 4) / 16 = v1 := by omega
      have e3 : (v1 % 16 * 16 + v2 / 4) % 16 * 4 + (v2 % 4 * 64 + v3) / 64 = v2 := by omega
      have e4 : (v2 % 4 * 64 + v3) % 64 = v3 := by omega
      simp only [b64encode, e1, e2, e3, e4]
  | case9 c0 c1 c2 c3 rest hno => intro bs h; cases h
  | case10 t h1 h2 => intro bs h; cases h

/-- the canonical decoder accepts exactly the encoder's outputs -/
theorem b64decodeCanon_eq_some_iff (s : List Char) (bs : List Nat) :
    b64decodeCanon s = some bs ↔ isBytes bs = true ∧ s = b64encode bs :=
  ⟨b64decodeCanon_sound s bs, fun ⟨h, e⟩ => e ▸ b64decodeCanon_encode bs h⟩

/-- the canonical decoder is injective: one string for one byte string -/
theorem b64decodeCanon_injective (s s' : List Char) (bs : List Nat)
    (h : b64decodeCanon s = some bs) (h' : b64decodeCanon s' = some bs) : s = s' := by
  rw [(b64decodeCanon_sound s bs h).2, (b64decodeCanon_sound s' bs h').2]

/-- whatever the canonical decoder accepts, CPython's `b64decode(validate=True)` accepts with the same result -/
theorem b64decode_of_canon (s : List Char) (bs : List Nat) (h : b64decodeCanon s = some bs) : b64decode s = some bs := by
  obtain ⟨hb, rfl⟩ := b64decodeCanon_sound s bs h
  exact b64decode_encode bs hb

/-- ... but not conversely: CPython ignores the bits of the last digit that belong to no byte (`QR==` is read as
    `QQ==`, i.e. `b"A"`), so its decoder is not injective. (An encoder never produces such a string.) -/
theorem cpython_accepts_noncanonical_bits :
    b64decode ['Q', 'R', '=', '='] = some [65] ∧ b64decode ['Q', 'Q', '=', '='] = some [65] ∧
    b64decodeCanon ['Q', 'R', '=', '='] = none ∧ b64encode [65] = ['Q', 'Q', '=', '='] := by decide

/-- ... and after a complete group it accepts any number of `=`, whatever the length (`QUJD=` is read as `QUJD`) -/
theorem cpython_accepts_extra_padding :
    b64decode ['Q', 'U', 'J', 'D', '='] = some [65, 66, 67] ∧ b64decode ['Q', 'U', 'J', 'D', '=', '=', '='] = some [65, 66, 67] ∧
    b64decodeCanon ['Q', 'U', 'J', 'D', '='] = none := by decide

/-- what CPython's decoder returns is a byte string -/
theorem b64decodeGo_isBytes (s : List Char) : ∀ (q l : Nat) (bs : List Nat), q < 4 →
    (q = 1 → l < 64) → (q = 2 → l < 16) → (q = 3 → l < 4) → b64decodeGo q l s = some bs → isBytes bs = true := by
  induction s with
  | nil =>
    intro q l bs _ _ _ _ h
    simp only [b64decodeGo] at h
    split at h
    · cases h; rfl
    · cases h
  | cons c rest ih =>
    intro q l bs hq h1 h2 h3 h
    unfold b64decodeGo at h
    split at h
    · -- a pad: the result, if any, is empty
      have : bs = [] := by
        revert h
        split <;> (try split) <;> intro h <;> first | (cases h; rfl) | cases h
      subst this; rfl
    · cases hv : b64val c with
      | none => rw [hv] at h; cases h
      | some v =>
        rw [hv] at h
        have hv64 : v < 64 := (b64val_eq_some hv).1
        simp only at h
        match q, hq, h1, h2, h3, h with
        | 0, _, _, _, _, h => exact ih 1 v bs (by omega) (fun _ => hv64) (by omega) (by omega) h
        | 1, _, h1, _, _, h =>
          cases hr : b64decodeGo 2 (v % 16) rest with
          | none => rw [hr] at h; cases h
          | some tl =>
            rw [hr] at h; cases h
            have := ih 2 (v % 16) tl (by omega) (by omega) (fun _ => by omega) (by omega) hr
            have := h1 rfl
            exact isBytes_cons.mpr ⟨by omega, ‹isBytes tl = true›⟩
        | 2, _, _, h2, _, h =>
          cases hr : b64decodeGo 3 (v % 4) rest with
          | none => rw [hr] at h; cases h
          | some tl =>
            rw [hr] at h; cases h
            have := ih 3 (v % 4) tl (by omega) (by omega) (by omega) (fun _ => by omega) hr
            have := h2 rfl
            exact isBytes_cons.mpr ⟨by omega, ‹isBytes tl = true›⟩
        | 3, _, _, _, h3, h =>
          cases hr : b64decodeGo 0 0 rest with
          | none => rw [hr] at h; cases h
          | some tl =>
            rw [hr] at h; cases h
            have := ih 0 0 tl (by omega) (by omega) (by omega) (by omega) hr
            have := h3 rfl
            exact isBytes_cons.mpr ⟨by omega, ‹isBytes tl = true›⟩

theorem b64decode_isBytes (s : List Char) (bs : List Nat) (h : b64decode s = some bs) : isBytes bs = true := by
  unfold b64decode at h
  split at h
  · cases h
  · exact b64decodeGo_isBytes s 0 0 bs (by omega) (by omega) (by omega) (by omega) h

/-- the canonical strings are exactly those that CPython accepts AND that are the encoding of what they decode to
    (this is how the correspondence script computes the reference for `b64decodeCanon`) -/
theorem b64decodeCanon_iff_cpython_and_reencode (s : List Char) (bs : List Nat) :
    b64decodeCanon s = some bs ↔ b64decode s = some bs ∧ b64encode bs = s := by
  constructor
  · intro h
    exact ⟨b64decode_of_canon s bs h, (b64decodeCanon_sound s bs h).2.symm⟩
  · rintro ⟨h, rfl⟩
    exact b64decodeCanon_encode bs (b64decode_isBytes _ bs h)

/-! ## the data URL -/

/-- reading the data URL as RFC 2397 says (header up to the first comma, `;base64`) with ANY base64 decoder that
    inverts the encoder on this byte string gives back the media type and the bytes -/
theorem dataUrl_roundtrip_with (dec : List Char → Option (List Nat)) (m : List Char) (bs : List Nat) (hm : ',' ∉ m)
    (hdec : dec (b64encode bs) = some bs) : parseDataUrlWith dec (dataUrl m bs) = some (m, bs) := by
  have e : dataUrl m bs = ['d', 'a', 't', 'a', ':'] ++ ((m ++ [';', 'b', 'a', 's', 'e', '6', '4']) ++ ',' :: b64encode bs) := by
    simp [dataUrl]
  have hh : ',' ∉ m ++ [';', 'b', 'a', 's', 'e', '6', '4'] := by
    intro hc
    rcases List.mem_append.mp hc with hc | hc
    · exact hm hc
    · revert hc; decide
  unfold parseDataUrlWith
  rw [e, stripPrefix?_append]
  simp only []
  rw [splitComma_append _ _ hh]
  simp only []
  rw [stripSuffix?_append]
  simp only []
  rw [hdec]
  rfl

/-- "the embedded copy is byte-identical": reading the data URL as RFC 2397 says (header up to the first comma,
    `;base64`, payload decoded as `base64.b64decode(·, validate=True)`) gives back the media type and the bytes -/
theorem dataUrl_roundtrip (m : List Char) (bs : List Nat) (hm : ',' ∉ m) (hb : isBytes bs = true) :
    parseDataUrl (dataUrl m bs) = some (m, bs) :=
  dataUrl_roundtrip_with b64decode m bs hm (b64decode_encode bs hb)

/-- the same for a reader with the canonical decoder; and conversely the ONLY string that such a reader reads as
    `(m, bs)` is `dataUrl m bs`: the URL is determined by the media type and the bytes, and determines them -/
theorem parseDataUrlCanon_eq_some_iff (u m : List Char) (bs : List Nat) :
    parseDataUrlCanon u = some (m, bs) ↔ ',' ∉ m ∧ isBytes bs = true ∧ u = dataUrl m bs := by
  constructor
  · intro h
    unfold parseDataUrlCanon parseDataUrlWith at h
    cases h1 : stripPrefix? ['d', 'a', 't', 'a', ':'] u with
    | none => rw [h1] at h; cases h
    | some rest =>
      rw [h1] at h
      simp only [] at h
      cases h2 : splitComma rest with
      | none => rw [h2] at h; cases h
      | some hp =>
        obtain ⟨header, payload⟩ := hp
        rw [h2] at h
        simp only [] at h
        cases h3 : stripSuffix? [';', 'b', 'a', 's', 'e', '6', '4'] header with
        | none => rw [h3] at h; cases h
        | some mt =>
          rw [h3] at h
          simp only [] at h
          cases h4 : b64decodeCanon payload with
          | none => rw [h4] at h; cases h
          | some bs' =>
            rw [h4] at h
            simp only [Option.map_some, Option.some.injEq, Prod.mk.injEq] at h
            obtain ⟨rfl, rfl⟩ := h
            have e1 := stripPrefix?_eq_some _ _ _ h1
            obtain ⟨e2, hn⟩ := splitComma_eq_some _ _ _ h2
            have e3 := stripSuffix?_eq_some _ _ _ h3
            obtain ⟨hb, e4⟩ := b64decodeCanon_sound _ _ h4
            refine ⟨?_, hb, ?_⟩
            · intro hc; apply hn; rw [e3]; exact List.mem_append_left _ hc
            · rw [e1, e2, e3, e4]; simp [dataUrl]
  · rintro ⟨hm, hb, rfl⟩
    exact dataUrl_roundtrip_with b64decodeCanon m bs hm (b64decodeCanon_encode bs hb)

/-- two data URLs are equal only if media types and bytes are -/
theorem dataUrl_injective (m m' : List Char) (bs bs' : List Nat) (hm : ',' ∉ m) (hm' : ',' ∉ m')
    (hb : isBytes bs = true) (hb' : isBytes bs' = true) (e : dataUrl m bs = dataUrl m' bs') : m = m' ∧ bs = bs' := by
  have h := dataUrl_roundtrip m bs hm hb
  rw [e, dataUrl_roundtrip m' bs' hm' hb'] at h
  have := Option.some.inj h
  exact ⟨(Prod.mk.inj this).1.symm, (Prod.mk.inj this).2.symm⟩

/-- the payload is a function of the file's bytes and of nothing else: the same URL means the same bytes (no
    hypothesis on the media type) -/
theorem dataUrl_only_file_bytes (m : List Char) (bs bs' : List Nat) (hb : isBytes bs = true) (hb' : isBytes bs' = true)
    (e : dataUrl m bs = dataUrl m bs') : bs = bs' := by
  unfold dataUrl at e
  exact b64encode_injective bs bs' hb hb' (List.append_cancel_left e)

/-- the URL is the fixed text, the media type and the encoded bytes: nothing else (no file name, no path, no other
    file) takes part -/
theorem dataUrl_mem (m : List Char) (bs : List Nat) (c : Char) (h : c ∈ dataUrl m bs) :
    c ∈ ['d', 'a', 't', 'a', ':', ';', 'b', 's', 'e', '6', '4', ','] ∨ c ∈ m ∨ (c ∈ b64encode bs ∧ isB64Out c = true) := by
  unfold dataUrl at h
  simp only [List.mem_append] at h
  rcases h with ((h | h) | h) | h
  · left; revert h; simp only [List.mem_cons, List.not_mem_nil, or_false]; intro h; rcases h with rfl | rfl | rfl | rfl | rfl <;> simp
  · right; left; exact h
  · left; revert h; simp only [List.mem_cons, List.not_mem_nil, or_false]; intro h
    rcases h with rfl | rfl | rfl | rfl | rfl | rfl | rfl | rfl <;> simp
  · right; right; exact ⟨h, b64encode_alphabet bs c h⟩

/-- the characters with a meaning in an HTML attribute -/
def attrSpecial (c : Char) : Bool := c == '&' || c == '<' || c == '>' || c == '"'

theorem attrSpecial_false_of_isB64Out {c : Char} (h : isB64Out c = true) : attrSpecial c = false := by
  cases hs : attrSpecial c with
  | false => rfl
  | true =>
    simp only [attrSpecial, Bool.or_eq_true, beq_iff_eq] at hs
    rcases hs with ((rfl | rfl) | rfl) | rfl <;> revert h <;> decide

/-- if the media type has none of `& < > "`, the data URL has none either: written into an attribute it needs no
    escaping, and `html.escape` / `html.unescape` leave it as it is -/
theorem dataUrl_attribute_safe (m : List Char) (bs : List Nat) (hm : ∀ c ∈ m, attrSpecial c = false) :
    ∀ c ∈ dataUrl m bs, attrSpecial c = false := by
  intro c hc
  rcases dataUrl_mem m bs c hc with h | h | ⟨_, h⟩
  · revert h; simp only [List.mem_cons, List.not_mem_nil, or_false]; intro h
    rcases h with rfl | rfl | rfl | rfl | rfl | rfl | rfl | rfl | rfl | rfl | rfl | rfl <;> decide
  · exact hm c h
  · exact attrSpecial_false_of_isB64Out h

theorem attrVerbatim_of_isB64Out {c : Char} (h : isB64Out c = true) : attrVerbatim c = true := by
  unfold isB64Out at h
  unfold attrVerbatim
  simp only [Bool.or_eq_true, Bool.and_eq_true, decide_eq_true_eq, beq_iff_eq] at h ⊢
  rcases h with ((((h | h) | h) | rfl) | rfl) | rfl
  · left; left; right; exact h
  · left; right; exact h
  · left; left; left; exact h
  · right; decide
  · right; decide
  · right; decide

/-- lxml's serialiser (libxml2: URI escaping of `src` / `href`, then `& < >`) writes every character of the data
    URL as it is, provided it does so for the characters of the media type (letters, digits, `/ + - . ; =` ...):
    the attribute in the page IS the string `rewrite_link` returned -/
theorem dataUrl_attribute_verbatim (m : List Char) (bs : List Nat) (hm : ∀ c ∈ m, attrVerbatim c = true) :
    ∀ c ∈ dataUrl m bs, attrVerbatim c = true := by
  intro c hc
  rcases dataUrl_mem m bs c hc with h | h | ⟨_, h⟩
  · revert h; simp only [List.mem_cons, List.not_mem_nil, or_false]; intro h
    rcases h with rfl | rfl | rfl | rfl | rfl | rfl | rfl | rfl | rfl | rfl | rfl | rfl <;> decide
  · exact hm c h
  · exact attrVerbatim_of_isB64Out h

theorem attrSpecial_false_of_verbatim : ∀ {c : Char}, attrVerbatim c = true → attrSpecial c = false := by
  intro c h
  cases hs : attrSpecial c with
  | false => rfl
  | true =>
    simp only [attrSpecial, Bool.or_eq_true, beq_iff_eq] at hs
    rcases hs with ((rfl | rfl) | rfl) | rfl <;> revert h <;> decide

/-- the length of the URL: the fixed 13 characters, the media type, four characters per three bytes -/
theorem dataUrl_length (m : List Char) (bs : List Nat) :
    (dataUrl m bs).length = 13 + m.length + 4 * ((bs.length + 2) / 3) := by
  simp only [dataUrl, List.length_append, b64encode_length, List.length_cons, List.length_nil]; omega

/-! ## the media type -/

theorem lookupStr_mem (tbl : List (List Char × List Char)) (k v : List Char) (h : lookupStr tbl k = some v) : (k, v) ∈ tbl := by
  unfold lookupStr at h
  cases hf : tbl.find? (fun x => decide (x.1 = k)) with
  | none => rw [hf] at h; cases h
  | some kv =>
    rw [hf] at h
    have hm := List.mem_of_find?_eq_some hf
    have hk := List.find?_some hf
    simp only [decide_eq_true_eq] at hk
    cases h
    obtain ⟨k', v'⟩ := kv
    simp only at hk
    subst hk
    exact hm

/-- the media type is the default or a value of `types_map` -/
theorem guessTypeWith_mem (sm em tm : List (List Char × List Char)) (name : List Char) :
    guessTypeWith sm em tm name = octetStream ∨ ∃ k, (k, guessTypeWith sm em tm name) ∈ tm := by
  unfold guessTypeWith guessPairWith
  cases h : lookupStr tm (finalExt sm em name) with
  | none => left; rfl
  | some t =>
    cases he : encodingOf sm em name with
    | none => right; exact ⟨_, lookupStr_mem tm _ t h⟩
    | some e => left; rfl

/-- the media type depends on the file name only through the extension and the encoding that `finalExtEnc`
    extracts: neither the directory, nor the stem, nor the case of the extension take part -/
theorem guessTypeWith_ext_only (sm em tm : List (List Char × List Char)) (name name' : List Char)
    (h : finalExtEnc sm em name = finalExtEnc sm em name') : guessTypeWith sm em tm name = guessTypeWith sm em tm name' := by
  unfold guessTypeWith guessPairWith finalExt encodingOf; rw [h]

/-- THE REPAIRED BEHAVIOUR (commit cc91d96): a file whose name says it is compressed is embedded as
    `application/octet-stream`, whatever `types_map` says about the extension below the compression suffix -/
theorem compressed_file_is_octet_stream (sm em tm : List (List Char × List Char)) (name e : List Char)
    (h : encodingOf sm em name = some e) : guessTypeWith sm em tm name = octetStream := by
  unfold guessTypeWith guessPairWith
  rw [h]
  cases lookupStr tm (finalExt sm em name) <;> rfl

/-- ... and conversely: a media type other than the default is only given to a name without encoding suffix, and
    it is the table's entry for the name's final extension (lower-cased) -/
theorem typed_file_has_no_encoding (sm em tm : List (List Char × List Char)) (name : List Char)
    (h : guessTypeWith sm em tm name ≠ octetStream) :
    encodingOf sm em name = none ∧ lookupStr tm (finalExt sm em name) = some (guessTypeWith sm em tm name) := by
  unfold guessTypeWith guessPairWith at h ⊢
  cases ht : lookupStr tm (finalExt sm em name) with
  | none => rw [ht] at h; exact absurd rfl h
  | some t =>
    cases he : encodingOf sm em name with
    | none => exact ⟨rfl, rfl⟩
    | some e => rw [ht, he] at h; exact absurd rfl h

/-- the new rule is the old one where there is no encoding, and the default where there is one -/
theorem guessTypeWith_eq (sm em tm : List (List Char × List Char)) (name : List Char) :
    guessTypeWith sm em tm name =
      if encodingOf sm em name = none then guessTypeOldWith sm em tm name else octetStream := by
  unfold guessTypeWith guessTypeOldWith guessPairWith
  cases ht : lookupStr tm (finalExt sm em name) <;> cases he : encodingOf sm em name <;> simp

/-- a name whose final suffix is (case-sensitively) a key of `encodings_map`, and not one that `suffix_map`
    rewrites, has that encoding -/
theorem encodingOf_of_final_suffix (sm em : List (List Char × List Char)) (name e : List Char)
    (hs : lookupStr sm ((splitExt name).2.map asciiLower) = none) (he : lookupStr em (splitExt name).2 = some e) :
    encodingOf sm em name = some e := by
  unfold encodingOf finalExtEnc
  simp only [applySuffixMap, hs, he]

/-- `posixpath.splitext` of `stem.ext`: a stem that does not start with a dot, an extension without a dot -/
theorem splitExt_stem_ext (stem e : List Char) (c : Char) (hc : c ≠ '.') (he : '.' ∉ e) (rest : List Char)
    (hstem : stem = c :: rest) : splitExt (stem ++ '.' :: e) = (stem, '.' :: e) := by
  subst hstem
  have hlead : ((c :: rest) ++ '.' :: e).takeWhile (· == '.') = [] := by
    simp [hc]
  have htw : (e.reverse ++ '.' :: (c :: rest).reverse).takeWhile (· != '.') = e.reverse := by
    rw [List.takeWhile_append_of_pos]
    · simp [List.takeWhile]
    · intro x hx
      have : x ∈ e := List.mem_reverse.mp hx
      have hne : x ≠ '.' := fun h => he (h ▸ this)
      simp [hne]
  have hrev : ((c :: rest) ++ '.' :: e).reverse = e.reverse ++ '.' :: (c :: rest).reverse := by simp
  unfold splitExt
  simp only [hlead, List.length_nil, List.drop_zero, hrev, htw, List.nil_append]
  have hlen : ¬ e.reverse.length = (e.reverse ++ '.' :: (c :: rest).reverse).length := by
    simp only [List.length_append, List.length_cons]; omega
  rw [if_neg hlen]
  simp [List.drop_append]

/-- a file called `stem.gz`, `stem.txt.bz2`, ... (final suffix a key of `encodings_map`) is embedded as
    `application/octet-stream` -/
theorem compressed_name_is_octet_stream (sm em tm : List (List Char × List Char)) (c : Char) (rest e enc : List Char)
    (hc : c ≠ '.') (he : '.' ∉ e) (hs : lookupStr sm (('.' :: e).map asciiLower) = none)
    (hen : lookupStr em ('.' :: e) = some enc) : guessTypeWith sm em tm ((c :: rest) ++ '.' :: e) = octetStream := by
  have hsp := splitExt_stem_ext (c :: rest) e c hc he rest rfl
  exact compressed_file_is_octet_stream sm em tm _ enc
    (encodingOf_of_final_suffix sm em _ enc (by rw [hsp]; exact hs) (by rw [hsp]; exact hen))

/-- every media type that the table can give has a property that the default and all the table's values have -/
theorem guessTypeWith_all (P : List Char → Prop) (sm em tm : List (List Char × List Char)) (name : List Char)
    (hd : P octetStream) (ht : ∀ kv ∈ tm, P kv.2) : P (guessTypeWith sm em tm name) := by
  rcases guessTypeWith_mem sm em tm name with h | ⟨k, h⟩
  · rw [h]; exact hd
  · exact ht _ h

/-- the whole of the end of `rewrite_link`, over a file found by the (already verified) resolution: with a table of
    media types whose values have no comma, the data URL reads back as the file's bytes, exactly -/
theorem embedded_copy_identical (sm em tm : List (List Char × List Char)) (name : List Char) (content : List Nat)
    (ht : ∀ kv ∈ tm, ',' ∉ kv.2) (hb : isBytes content = true) :
    parseDataUrl (dataUrl (guessTypeWith sm em tm name) content) = some (guessTypeWith sm em tm name, content) :=
  dataUrl_roundtrip _ _ (guessTypeWith_all (fun t => ',' ∉ t) sm em tm name (by decide) ht) hb

/-- ... and for the file that `decideEmbed` (Model/Fs.lean) serves: whatever the link, if it is served at all, the URL
    decodes to that file's content -/
theorem embedded_asset_identical (sm em tm : List (List Char × List Char)) (fs : Fs) (root sd : Path) (url : Str)
    (rel : Path) (content : List Nat) (_h : decideEmbed fs root sd url = .asset rel content)
    (ht : ∀ kv ∈ tm, ',' ∉ kv.2) (hb : isBytes content = true) :
    ∃ m, parseDataUrl (dataUrl (guessTypeWith sm em tm (rel.getLast?.getD [])) content) = some (m, content) :=
  ⟨_, embedded_copy_identical sm em tm _ content ht hb⟩

/-! ## with the media types built into CPython (`Gen/Mime.lean`): no hypothesis left -/

/-- no media type of CPython's table has a comma, and all their characters are written verbatim by lxml -/
theorem builtin_types_clean :
    ∀ kv ∈ Gen.mimeTypesMap, ',' ∉ kv.2 ∧ ∀ c ∈ kv.2, attrVerbatim c = true := by decide +kernel

theorem guessType_clean (name : List Char) : ',' ∉ guessType name ∧ ∀ c ∈ guessType name, attrVerbatim c = true :=
  guessTypeWith_all (fun t => ',' ∉ t ∧ ∀ c ∈ t, attrVerbatim c = true) _ _ _ name (by decide) builtin_types_clean

/-- whatever the file is called and whatever it contains, the URL that `rewrite_link` returns reads back (RFC 2397,
    strict base64) as exactly the file's bytes, with the media type guessed from the name -/
theorem embedUrl_roundtrip (name : List Char) (bs : List Nat) (hb : isBytes bs = true) :
    parseDataUrl (embedUrl name bs) = some (guessType name, bs) :=
  dataUrl_roundtrip _ _ (guessType_clean name).1 hb

/-- ... is written into the page unchanged by lxml's serialiser, and has none of `& < > "` -/
theorem embedUrl_attribute_verbatim (name : List Char) (bs : List Nat) :
    ∀ c ∈ embedUrl name bs, attrVerbatim c = true ∧ attrSpecial c = false := by
  intro c hc
  have := dataUrl_attribute_verbatim _ bs (guessType_clean name).2 c hc
  exact ⟨this, attrSpecial_false_of_verbatim this⟩

/-- ... and two files embedded as the same URL have the same bytes (whatever their names) -/
theorem embedUrl_only_file_bytes (name name' : List Char) (bs bs' : List Nat) (hb : isBytes bs = true)
    (hb' : isBytes bs' = true) (e : embedUrl name bs = embedUrl name' bs') : guessType name = guessType name' ∧ bs = bs' :=
  dataUrl_injective _ _ bs bs' (guessType_clean name).1 (guessType_clean name').1 hb hb' e

/-- `html.escape(·, quote=True)` (which also rewrites `'`) and `html.unescape` leave the URL as it is: no `& < > " '` -/
theorem embedUrl_html_escape_fixed (name : List Char) (bs : List Nat) :
    ∀ c ∈ embedUrl name bs, c ≠ '&' ∧ c ≠ '<' ∧ c ≠ '>' ∧ c ≠ '"' ∧ c ≠ '\'' := by
  intro c hc
  have hq : ∀ kv ∈ Gen.mimeTypesMap, '\'' ∉ kv.2 := by decide +kernel
  have hq' : '\'' ∉ guessType name := guessTypeWith_all (fun t => '\'' ∉ t) _ _ _ name (by decide) hq
  have hs := (embedUrl_attribute_verbatim name bs c hc).2
  refine ⟨?_, ?_, ?_, ?_, ?_⟩
  · rintro rfl; revert hs; decide
  · rintro rfl; revert hs; decide
  · rintro rfl; revert hs; decide
  · rintro rfl; revert hs; decide
  · rintro rfl
    rcases dataUrl_mem _ bs _ hc with h | h | ⟨_, h⟩
    · revert h; decide
    · exact hq' h
    · revert h; decide

/-- the name takes part only through its extension and its encoding suffix -/
theorem embedUrl_name_only_ext (name name' : List Char) (bs : List Nat)
    (h : finalExtEnc Gen.mimeSuffixMap Gen.mimeEncodingsMap name = finalExtEnc Gen.mimeSuffixMap Gen.mimeEncodingsMap name') :
    embedUrl name bs = embedUrl name' bs := by
  unfold embedUrl guessType; rw [guessTypeWith_ext_only _ _ _ name name' h]

/-- with CPython's tables: every name `stem.gz`, `stem.Z`, `stem.bz2`, `stem.xz`, `stem.br` (whatever the stem, e.g.
    `notes.txt`, `x.tar`, `pic.svg`) is embedded as `application/octet-stream` -/
theorem builtin_compressed_name_is_octet_stream (c : Char) (rest e : List Char) (hc : c ≠ '.')
    (he : e ∈ ["gz".toList, "Z".toList, "bz2".toList, "xz".toList, "br".toList]) (bs : List Nat) :
    embedUrl ((c :: rest) ++ '.' :: e) bs = dataUrl octetStream bs := by
  unfold embedUrl guessType
  simp only [List.mem_cons, List.not_mem_nil, or_false] at he
  rcases he with rfl | rfl | rfl | rfl | rfl
  · rw [compressed_name_is_octet_stream _ _ _ c rest _ "gzip".toList hc (by decide) (by decide +kernel) (by decide +kernel)]
  · rw [compressed_name_is_octet_stream _ _ _ c rest _ "compress".toList hc (by decide) (by decide +kernel) (by decide +kernel)]
  · rw [compressed_name_is_octet_stream _ _ _ c rest _ "bzip2".toList hc (by decide) (by decide +kernel) (by decide +kernel)]
  · rw [compressed_name_is_octet_stream _ _ _ c rest _ "xz".toList hc (by decide) (by decide +kernel) (by decide +kernel)]
  · rw [compressed_name_is_octet_stream _ _ _ c rest _ "br".toList hc (by decide) (by decide +kernel) (by decide +kernel)]

/-- the repaired behaviour on the names of the defect report, including the ones that reach an encoding through
    `suffix_map` (`.svgz -> .svg.gz`, `.tgz -> .tar.gz`, looked up lower-cased) and upper-case variants: the gzip
    header `1f 8b 08` is embedded as `application/octet-stream`; CPython's pair is still (type, encoding) -/
theorem compressed_file_is_octet_stream_witness :
    embedUrl "pic.svgz".toList [31, 139, 8] = "data:application/octet-stream;base64,H4sI".toList ∧
    embedUrl "notes.txt.gz".toList [31, 139, 8] = "data:application/octet-stream;base64,H4sI".toList ∧
    embedUrl "x.tar.gz".toList [31, 139, 8] = "data:application/octet-stream;base64,H4sI".toList ∧
    guessType "x.tgz".toList = octetStream ∧ guessType "notes.txt.bz2".toList = octetStream ∧
    guessType "PIC.SVGZ".toList = octetStream ∧ guessType "X.TGZ".toList = octetStream ∧
    guessType "NOTES.TXT.gz".toList = octetStream ∧ guessType "x.png.Z".toList = octetStream ∧
    guessPair "pic.svgz".toList = (some "image/svg+xml".toList, some "gzip".toList) ∧
    guessPair "notes.txt.bz2".toList = (some "text/plain".toList, some "bzip2".toList) ∧
    guessPair "x.gz".toList = (none, some "gzip".toList) ∧
    -- `.GZ` is not an encoding suffix (the table is case sensitive) and CPython's table has no type `.gz`
    guessPair "notes.txt.GZ".toList = (none, none) ∧ guessType "notes.txt.GZ".toList = octetStream ∧
    -- uncompressed files keep their type
    guessType "pic.svg".toList = "image/svg+xml".toList ∧ guessType "notes.TXT".toList = "text/plain".toList := by
  decide +kernel

/-- THE OLD BEHAVIOUR (before commit cc91d96, `mimetype, _ = mimetypes.guess_type(fspath)`: the encoding thrown
    away): a gzip-compressed file was labelled with the media type of what it would be after decompression; a data
    URL has no `Content-Encoding`, so a browser read gzip bytes as SVG text. -/
theorem old_rule_mislabels_witness :
    embedUrlOld "pic.svgz".toList [31, 139, 8] = "data:image/svg+xml;base64,H4sI".toList ∧
    embedUrlOld "notes.txt.gz".toList [31, 139, 8] = "data:text/plain;base64,H4sI".toList ∧
    embedUrlOld "x.tar.gz".toList [31, 139, 8] = "data:application/x-tar;base64,H4sI".toList := by decide +kernel

example : guessType "photo.PNG".toList = "image/png".toList ∧ guessType "x.y.jpg".toList = "image/jpeg".toList ∧
    guessType "drawing.svg".toList = "image/svg+xml".toList ∧ guessType "drawing.svgz".toList = octetStream ∧
    guessType "x.tar.gz".toList = octetStream ∧ guessType "x.tar".toList = "application/x-tar".toList ∧
    guessType "notes.txt".toList = "text/plain".toList ∧ guessType "data.bin".toList = octetStream ∧
    guessType "README".toList = octetStream ∧ guessType ".png".toList = octetStream ∧
    guessType "x.unknownext".toList = octetStream ∧ guessType "x.gz".toList = octetStream := by decide +kernel
example : embedUrl "pixel.png".toList [137, 80, 78, 71] = "data:image/png;base64,iVBORw==".toList := by decide +kernel
example : finalExtEnc Gen.mimeSuffixMap Gen.mimeEncodingsMap "a.PNG".toList =
    finalExtEnc Gen.mimeSuffixMap Gen.mimeEncodingsMap "b.x.png".toList := by decide +kernel

/-! ## non-vacuity: concrete inputs -/

-- the three padding cases and the empty file
example : b64encode [] = [] := by decide
example : b64encode [77] = "TQ==".toList := by decide
example : b64encode [77, 97] = "TWE=".toList := by decide
example : b64encode [77, 97, 110] = "TWFu".toList := by decide
example : b64encode [77, 97, 110, 33] = "TWFuIQ==".toList := by decide
-- bytes 0 and 255
example : b64encode [0] = "AA==".toList ∧ b64encode [255] = "/w==".toList ∧ b64encode [0, 255, 0] = "AP8A".toList ∧
    b64encode [255, 255, 255] = "////".toList ∧ b64encode [251, 239, 190] = "++++".toList := by decide
example : b64decode "AA==".toList = some [0] ∧ b64decode "/w==".toList = some [255] ∧ b64decode "".toList = some [] ∧
    b64decode "TWE=".toList = some [77, 97] ∧ b64decode "TWFu".toList = some [77, 97, 110] := by decide
-- rejected: wrong length, bad character, padding in the middle, leading padding, excess data
example : b64decode "TWF".toList = none ∧ b64decode "T".toList = none ∧ b64decode "TW-u".toList = none ∧
    b64decode "TQ=u".toList = none ∧ b64decode "=TQ=".toList = none ∧ b64decode "TQ==TQ==".toList = none ∧
    b64decode "TQ=".toList = none ∧ b64decode "TWFu\n".toList = none := by decide
-- the first 16 bytes of a PNG file (signature, length and type of the IHDR chunk)
def pngHeader : List Nat := [137, 80, 78, 71, 13, 10, 26, 10, 0, 0, 0, 13, 73, 72, 68, 82]
example : isBytes pngHeader = true := by decide
example : dataUrl "image/png".toList pngHeader = "data:image/png;base64,iVBORw0KGgoAAAANSUhEUg==".toList := by decide
example : parseDataUrl "data:image/png;base64,iVBORw0KGgoAAAANSUhEUg==".toList = some ("image/png".toList, pngHeader) := by
  decide
example : ',' ∉ "image/png".toList ∧ (∀ c ∈ "image/svg+xml".toList, attrVerbatim c = true) ∧
    (∀ c ∈ "image/svg+xml".toList, attrSpecial c = false) := by decide
-- the hypotheses of the round trip are needed: a comma in the media type moves the split
example : parseDataUrl (dataUrl "a,b".toList [77]) = none := by decide
-- an empty file is embedded as an empty payload
example : dataUrl octetStream [] = "data:application/octet-stream;base64,".toList ∧
    parseDataUrl (dataUrl octetStream []) = some (octetStream, []) := by decide
-- the media type rule over a small table
def exTypes : List (List Char × List Char) := [(".png".toList, "image/png".toList), (".tar".toList, "application/x-tar".toList)]
def exEnc : List (List Char × List Char) := [(".gz".toList, "gzip".toList)]
def exSfx : List (List Char × List Char) := [(".tgz".toList, ".tar.gz".toList)]
example : guessTypeWith exSfx exEnc exTypes "photo.PNG".toList = "image/png".toList ∧
    guessTypeWith exSfx exEnc exTypes "x.tar.gz".toList = octetStream ∧
    guessTypeWith exSfx exEnc exTypes "x.tgz".toList = octetStream ∧
    guessTypeOldWith exSfx exEnc exTypes "x.tgz".toList = "application/x-tar".toList ∧
    guessTypeWith exSfx exEnc exTypes "x.tar".toList = "application/x-tar".toList ∧
    encodingOf exSfx exEnc "x.tgz".toList = some "gzip".toList ∧
    guessTypeWith exSfx exEnc exTypes ".png".toList = octetStream ∧
    guessTypeWith exSfx exEnc exTypes "png".toList = octetStream ∧
    guessTypeWith exSfx exEnc exTypes "x.tar.GZ".toList = octetStream := by decide
example : ∀ kv ∈ exTypes, ',' ∉ kv.2 := by decide

end RG.C16
