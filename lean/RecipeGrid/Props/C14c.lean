import RecipeGrid.Model.SiteSources
import RecipeGrid.Model.Links
import RecipeGrid.Lemmas.SiteSources
import RecipeGrid.Lemmas.Fmt
import RecipeGrid.Props.C14
import RecipeGrid.Props.C14b
import RecipeGrid.Props.C15
/-! C14c — AUTHORED links between the documents of a site: the source → page table of
    `HomePage.make_source_to_page_paths_lookup()` has exactly one entry for every directory, readme and recipe file of
    the source tree, every entry points at a page of the site, and the link that `resolve_local_links` writes for an
    entry — decoded and resolved against the referring page as a browser does (RFC 3986 §5.2) — leads to the page of the
    linked document at the reader's serving count. -/
namespace RG.C14
open C15 (DirAt InTree Hierarchy)

-- ================================================================ vocabulary: the source documents of a tree
/-- a source document of the tree, named by the directory names leading to it from the root -/
inductive Source where
  /-- the readme of the root directory (the home page's welcome message) -/
  | rootReadme
  /-- the directory reached by `dirs` (the root itself for `[]`) -/
  | dir (dirs : List Str)
  /-- the readme of the non-root directory reached by `dirs` -/
  | readme (dirs : List Str)
  /-- the recipe file `r` in the directory reached by `dirs` -/
  | recipe (dirs : List Str) (r : RecipeFile)

/-- the source is present in the tree -/
def Source.Present (root : Dir) : Source → Prop
  | .rootReadme => root.readmeTitle.isSome = true
  | .dir dirs => ∃ d, DirAt root dirs d
  | .readme dirs => dirs ≠ [] ∧ ∃ d, DirAt root dirs d ∧ d.readmeTitle.isSome = true
  | .recipe dirs r => InTree root dirs r

/-- the key of the source in the table: its path relative to the source root, as segments (`rn dirs` is the file name
    of the readme of the directory `dirs`) -/
def Source.key (rn : List Str → Str) : Source → List Str
  | .rootReadme => [rn []]
  | .dir dirs => dirs
  | .readme dirs => dirs ++ [rn dirs]
  | .recipe dirs r => dirs ++ [r.file]

/-- the page that shows the source to a reader who is browsing the hierarchy `sv` (`some n`: `/serves<n>/`; `none`:
    `/categories/` or the home page, where a scalable recipe is shown at its native count) -/
def Source.pageAt : Source → Option Nat → Str
  | .rootReadme, _ => "/index.html".toList
  | .dir dirs, sv => catPath sv dirs
  | .readme dirs, sv => catPath sv dirs
  | .recipe dirs r, sv =>
    match r.servings with
    | none => recipePath none dirs r.file
    | some native => recipePath (some (sv.getD native)) dirs r.file

/-- the flag of the table: false exactly for recipes without a stated serving count -/
def Source.scalable : Source → Bool
  | .recipe _ r => r.servings.isSome
  | _ => true

/-- the table entry of a source: its definitive page is the one a reader outside the `serves<n>` hierarchies sees -/
def Source.entry (rn : List Str → Str) (s : Source) : SrcEntry := (s.key rn, (s.pageAt none, s.scalable))

/-- the stated serving count of a recipe source lies in 1..M (vacuous for the other sources) -/
def Source.CountOK (M : Nat) : Source → Prop
  | .recipe _ r => ∀ native, r.servings = some native → 1 ≤ native ∧ native ≤ M
  | _ => True

-- ================================================================ the entries, spelled out
theorem entry_dir (rn : List Str → Str) (dirs : List Str) :
    Source.entry rn (.dir dirs) = (dirs, (catPath none dirs, true)) := rfl
theorem entry_readme (rn : List Str → Str) (dirs : List Str) :
    Source.entry rn (.readme dirs) = (dirs ++ [rn dirs], (catPath none dirs, true)) := rfl
theorem entry_rootReadme (rn : List Str → Str) :
    Source.entry rn .rootReadme = ([rn []], ("/index.html".toList, true)) := rfl
theorem entry_recipe_none (rn : List Str → Str) (dirs : List Str) (r : RecipeFile) (h : r.servings = none) :
    Source.entry rn (.recipe dirs r) = (dirs ++ [r.file], (recipePath none dirs r.file, false)) := by
  show (dirs ++ [r.file], ((match r.servings with
    | none => recipePath none dirs r.file
    | some native => recipePath (some ((none : Option Nat).getD native)) dirs r.file), r.servings.isSome)) = _
  rw [h]; rfl
theorem entry_recipe_some (rn : List Str → Str) (dirs : List Str) (r : RecipeFile) (n : Nat) (h : r.servings = some n) :
    Source.entry rn (.recipe dirs r) = (dirs ++ [r.file], (recipePath (some n) dirs r.file, true)) := by
  show (dirs ++ [r.file], ((match r.servings with
    | none => recipePath none dirs r.file
    | some native => recipePath (some ((none : Option Nat).getD native)) dirs r.file), r.servings.isSome)) = _
  rw [h]; rfl

-- ================================================================ the pairs the dict is built from
theorem recipeSource_eq_some (n : Nat) (dirs : List Str) (r : RecipeFile) (e : SrcEntry) :
    recipeSource n dirs r = some e ↔
      (r.servings = none ∧ e = (dirs ++ [r.file], (recipePath none dirs r.file, false))) ∨
      (r.servings = some n ∧ e = (dirs ++ [r.file], (recipePath (some n) dirs r.file, true))) := by
  unfold recipeSource
  cases hs : r.servings with
  | none => simp [eq_comm]
  | some native =>
    simp only [reduceCtorEq, false_and, false_or, Option.some.injEq]
    by_cases hn : native = n
    · subst hn; simp [eq_comm]
    · have : (native == n) = false := by simpa using hn
      simp [this, hn]

theorem mem_allSources (rn : List Str → Str) (root : Dir) (M : Nat) (e : SrcEntry) :
    e ∈ allSources rn root M ↔
      (root.readmeTitle.isSome = true ∧ e = ([rn []], ("/index.html".toList, true))) ∨
      (∃ n, 1 ≤ n ∧ n ≤ M ∧ e ∈ scaledSources n [] root) ∨
      e ∈ unscaledSources rn [] true root := by
  unfold allSources homeSources
  simp only [List.mem_append, List.mem_flatMap, List.mem_range]
  constructor
  · rintro ((h | ⟨m, hm, h⟩) | h)
    · split at h
      · rename_i hr; exact .inl ⟨hr, by simpa using h⟩
      · cases h
    · exact .inr (.inl ⟨m + 1, by omega, by omega, h⟩)
    · exact .inr (.inr h)
  · rintro (⟨hr, h⟩ | ⟨n, h1, h2, h⟩ | h)
    · left; left; simp [hr, h]
    · left; right
      exact ⟨n - 1, by omega, by rw [Nat.sub_add_cancel h1]; exact h⟩
    · exact .inr h

/-- every pair met by the dict comprehension is the entry of a source of the tree (a recipe that states a serving
    count is met in the `serves<native>` hierarchy, so its count is one of 1..M) -/
theorem allSources_sound (rn : List Str → Str) (root : Dir) (M : Nat) (e : SrcEntry) (h : e ∈ allSources rn root M) :
    ∃ s : Source, s.Present root ∧ s.CountOK M ∧ e = s.entry rn := by
  rcases (mem_allSources rn root M e).mp h with ⟨hr, rfl⟩ | ⟨n, h1, h2, h⟩ | h
  · exact ⟨.rootReadme, hr, trivial, rfl⟩
  · obtain ⟨rel, d', r, hsub, hr, he⟩ := (mem_scaledSources n e root []).mp h
    have hin : InTree root rel r := (C15.inTree_iff ..).mpr ⟨d', (C15.dirAt_iff ..).mpr hsub, hr⟩
    rw [List.nil_append, recipeSource_eq_some] at he
    rcases he with ⟨hs, rfl⟩ | ⟨hs, rfl⟩
    · refine ⟨.recipe rel r, hin, ?_, (entry_recipe_none rn rel r hs).symm⟩
      intro native hnat; rw [hs] at hnat; cases hnat
    · refine ⟨.recipe rel r, hin, ?_, (entry_recipe_some rn rel r n hs).symm⟩
      intro native hnat; rw [hs] at hnat; cases hnat; exact ⟨h1, h2⟩
  · obtain ⟨rel, d', hsub, hcase⟩ := (mem_unscaledSources rn e root [] true).mp h
    have hd : DirAt root rel d' := (C15.dirAt_iff ..).mpr hsub
    rcases hcase with rfl | ⟨hrel, hrd, rfl⟩
    · exact ⟨.dir rel, ⟨d', hd⟩, trivial, by rw [entry_dir, List.nil_append]⟩
    · have hrel : rel ≠ [] := by
        rcases hrel with h | h
        · cases h
        · exact h
      exact ⟨.readme rel, ⟨hrel, d', hd, hrd⟩, trivial, by rw [entry_readme, List.nil_append]⟩

/-- conversely every source of the tree is met, provided there is at least one `serves<n>` hierarchy (the shared page
    of an unscalable recipe is only ever reached through those) and stated serving counts lie in 1..M -/
theorem allSources_complete (rn : List Str → Str) (root : Dir) (M : Nat) (hM : 1 ≤ M) (s : Source)
    (hin : s.Present root) (hc : s.CountOK M) : s.entry rn ∈ allSources rn root M := by
  rw [mem_allSources]
  cases s with
  | rootReadme => exact .inl ⟨hin, rfl⟩
  | dir dirs =>
    obtain ⟨d, hd⟩ := hin
    exact .inr (.inr ((mem_unscaledSources rn _ root [] true).mpr ⟨dirs, d, (C15.dirAt_iff ..).mp hd, .inl
      (by rw [entry_dir, List.nil_append])⟩))
  | readme dirs =>
    obtain ⟨hne, d, hd, hrd⟩ := hin
    exact .inr (.inr ((mem_unscaledSources rn _ root [] true).mpr ⟨dirs, d, (C15.dirAt_iff ..).mp hd, .inr
      ⟨.inr hne, hrd, by rw [entry_readme, List.nil_append]⟩⟩))
  | recipe dirs r =>
    obtain ⟨d, hd, hr⟩ := (C15.inTree_iff ..).mp hin
    have hsub := (C15.dirAt_iff ..).mp hd
    cases hs : r.servings with
    | none =>
      exact .inr (.inl ⟨1, by omega, hM, (mem_scaledSources 1 _ root []).mpr ⟨dirs, d, r, hsub, hr, by
        rw [List.nil_append, recipeSource_eq_some]
        exact .inl ⟨hs, entry_recipe_none rn dirs r hs⟩⟩⟩)
    | some native =>
      obtain ⟨h1, h2⟩ := hc native hs
      exact .inr (.inl ⟨native, h1, h2, (mem_scaledSources native _ root []).mpr ⟨dirs, d, r, hsub, hr, by
        rw [List.nil_append, recipeSource_eq_some]
        exact .inr ⟨hs, entry_recipe_some rn dirs r native hs⟩⟩⟩)

-- ================================================================ C14c.1 the table has one entry per source document
/-- every entry of the table is the entry of a source document of the tree: the root readme ↦ the home page; a
    directory and its readme ↦ the directory's `/categories/…` page; a recipe that states a serving count ↦ its page at
    the native count; a recipe without ↦ its only page, under `/categories/…`, and this is the only kind flagged
    not scalable -/
theorem entries_classified (rn : List Str → Str) (root : Dir) (rootName : Str) (M : Nat) (e : SrcEntry)
    (he : e ∈ sourceToPagePathsWith rn root rootName M) : ∃ s : Source, s.Present root ∧ s.CountOK M ∧ e = s.entry rn :=
  allSources_sound rn root M e (mem_dictOfList_sub _ e he)

/-- stated serving counts lie in 1..M when the site builds and no recipe states 0 servings -/
theorem countOK_of_site (root : Dir) (rootName : Str) (M : Nat) (ps : List Page) (h : sitePages root rootName M = .ok ps)
    (hpos : ServingsPositive root) (s : Source) (hin : s.Present root) : s.CountOK M := by
  cases s with
  | recipe dirs r =>
    intro native hs
    have hle := (C15.recipe_pages_per_count root rootName M ps h dirs r hin native hs).1
    have := hpos dirs r hin
    rw [hs] at this
    refine ⟨?_, hle⟩
    rcases Nat.eq_zero_or_pos native with h0 | h0
    · subst h0; exact absurd rfl this
    · exact h0
  | _ => trivial

/-- `sources_complete`: the table has exactly one entry for every directory, every readme and every recipe file of the
    tree and no other entry — its keys are pairwise different, and a path is a key exactly if it is the path (relative
    to the source root) of a source document of the tree: `dirs` for a directory, `dirs ++ [readme file name]` for a
    readme, `dirs ++ [file name]` for a recipe.  (`1 ≤ M`: with `M = 0` the Python code raises `KeyError` as soon as the
    tree contains a recipe.) -/
theorem sources_complete (rn : List Str → Str) (root : Dir) (rootName : Str) (M : Nat) (ps : List Page)
    (h : sitePages root rootName M = .ok ps) (hpos : ServingsPositive root) (hM : 1 ≤ M) :
    ((sourceToPagePathsWith rn root rootName M).map (·.1)).Nodup ∧
    ∀ k, k ∈ (sourceToPagePathsWith rn root rootName M).map (·.1) ↔ ∃ s : Source, s.Present root ∧ k = s.key rn := by
  refine ⟨nodup_keys_dictOfList _, ?_⟩
  intro k
  unfold sourceToPagePathsWith
  rw [mem_keys_dictOfList]
  constructor
  · intro hk
    obtain ⟨e, he, rfl⟩ := List.mem_map.mp hk
    obtain ⟨s, hin, _, rfl⟩ := allSources_sound rn root M e he
    exact ⟨s, hin, rfl⟩
  · rintro ⟨s, hin, rfl⟩
    exact List.mem_map.mpr ⟨s.entry rn, allSources_complete rn root M hM s hin
      (countOK_of_site root rootName M ps h hpos s hin), rfl⟩

/-- different source documents have different paths (true of every real directory tree; the abstract tree type does
    not enforce it) -/
def KeysDistinct (rn : List Str → Str) (root : Dir) : Prop :=
  ∀ s s' : Source, s.Present root → s'.Present root → s.key rn = s'.key rn → s = s'

/-- … then looking up the path of a source document gives that document's entry -/
theorem sources_lookup (rn : List Str → Str) (root : Dir) (rootName : Str) (M : Nat) (ps : List Page)
    (h : sitePages root rootName M = .ok ps) (hpos : ServingsPositive root) (hM : 1 ≤ M) (hk : KeysDistinct rn root)
    (s : Source) (hin : s.Present root) :
    dictLookup (s.key rn) (sourceToPagePathsWith rn root rootName M) = some (s.pageAt none, s.scalable) := by
  apply dictLookup_of_mem _ (nodup_keys_dictOfList _)
  apply mem_dictOfList_of_functional
  · exact List.mem_map.mpr ⟨s.entry rn, allSources_complete rn root M hM s hin
      (countOK_of_site root rootName M ps h hpos s hin), rfl⟩
  · intro e he hek
    obtain ⟨s', hin', _, rfl⟩ := allSources_sound rn root M e he
    have : s' = s := hk s' s hin' hin hek
    rw [this]; rfl

-- ================================================================ C14c.2 every entry points at a page
/-- the page that shows a source document of the tree in a hierarchy of the site exists -/
theorem pageAt_mem (root : Dir) (rootName : Str) (M : Nat) (ps : List Page) (h : sitePages root rootName M = .ok ps)
    (s : Source) (hin : s.Present root) (hc : s.CountOK M) (sv : Option Nat) (hsv : Hierarchy M sv) :
    s.pageAt sv ∈ ps.map (·.path) := by
  cases s with
  | rootReadme => exact List.mem_map.mpr ⟨_, homePage_mem root rootName M ps h, rfl⟩
  | dir dirs =>
    obtain ⟨d, hd⟩ := hin
    exact C15.category_pages root rootName M ps h dirs d hd sv hsv
  | readme dirs =>
    obtain ⟨_, d, hd, _⟩ := hin
    exact C15.category_pages root rootName M ps h dirs d hd sv hsv
  | recipe dirs r =>
    have hin' : InTree root dirs r := hin
    cases hs : r.servings with
    | none =>
      obtain ⟨q, hq, hpath, _⟩ := C15.unscalable_recipe_page root rootName M ps h dirs r hin' hs
      have : Source.pageAt (.recipe dirs r) sv = recipePath none dirs r.file := by
        show (match r.servings with
          | none => recipePath none dirs r.file
          | some native => recipePath (some (sv.getD native)) dirs r.file) = _
        rw [hs]
      rw [this]
      exact List.mem_map.mpr ⟨q, hq, hpath⟩
    | some native =>
      have : Source.pageAt (.recipe dirs r) sv = recipePath (some (sv.getD native)) dirs r.file := by
        show (match r.servings with
          | none => recipePath none dirs r.file
          | some native => recipePath (some (sv.getD native)) dirs r.file) = _
        rw [hs]
      rw [this]
      obtain ⟨h1, h2⟩ := hc native hs
      have hall := (C15.recipe_pages_per_count root rootName M ps h dirs r hin' native hs).2
      have hb : 1 ≤ sv.getD native ∧ sv.getD native ≤ M := by
        cases sv with
        | none => exact ⟨h1, h2⟩
        | some n => exact hsv
      obtain ⟨q, hq, hpath, _⟩ := hall _ hb.1 hb.2
      exact List.mem_map.mpr ⟨q, hq, hpath⟩

/-- `sources_point_at_pages`: the website path of every entry is the path of a page of the site, and the entry's
    `scalable` flag is false exactly if it is the entry of a recipe file without a stated serving count -/
theorem sources_point_at_pages (rn : List Str → Str) (root : Dir) (rootName : Str) (M : Nat) (ps : List Page)
    (h : sitePages root rootName M = .ok ps) (e : SrcEntry) (he : e ∈ sourceToPagePathsWith rn root rootName M) :
    e.2.1 ∈ ps.map (·.path) ∧
    (e.2.2 = false ↔ ∃ dirs r, InTree root dirs r ∧ r.servings = none ∧ e = Source.entry rn (.recipe dirs r)) := by
  obtain ⟨s, hin, hc, rfl⟩ := entries_classified rn root rootName M e he
  refine ⟨pageAt_mem root rootName M ps h s hin hc none trivial, ?_⟩
  constructor
  · intro hf
    cases s with
    | recipe dirs r =>
      have hf' : r.servings.isSome = false := hf
      refine ⟨dirs, r, hin, ?_, rfl⟩
      cases hs : r.servings with
      | none => rfl
      | some n => rw [hs] at hf'; cases hf'
    | _ => cases hf
  · rintro ⟨dirs, r, _, hs, heq⟩
    rw [heq]
    show r.servings.isSome = false
    rw [hs]; rfl

-- ================================================================ the hierarchy a page is browsed in
/-- the hierarchy a page belongs to, read off its path: `/serves<n>/…` ↦ `some n`; `/categories/…` and the home page
    `/index.html` ↦ `none` (a reader there sees every scalable recipe at its native count) -/
def PageScale (path : Str) (sv : Option Nat) : Prop :=
  (path = "/index.html".toList ∧ sv = none) ∨ ∃ rest, path = '/' :: (scaleRoot sv ++ '/' :: rest)

/-- a path belongs to one hierarchy only -/
theorem pageScale_unique (path : Str) (sv sv' : Option Nat) (h : PageScale path sv) (h' : PageScale path sv') : sv = sv' := by
  have hhome : ∀ (sv : Option Nat) (rest : Str), "/index.html".toList ≠ '/' :: (scaleRoot sv ++ '/' :: rest) := by
    intro sv rest heq
    have h1 : slashes "/index.html".toList = 1 := by decide
    rw [heq, slashes_cons_slash, slashes_append, slashes_cons_slash] at h1
    omega
  rcases h with ⟨h1, h2⟩ | ⟨rest, h1⟩
  · rcases h' with ⟨_, h4⟩ | ⟨rest', h3⟩
    · rw [h2, h4]
    · rw [h1] at h3; exact absurd h3 (hhome _ _)
  · rcases h' with ⟨h3, _⟩ | ⟨rest', h3⟩
    · rw [h3] at h1; exact absurd h1 (hhome _ _)
    · rw [h1] at h3
      exact scaleRoot_inj _ _ (append_slash_inj _ _ _ _ (scaleRoot_ok sv).2.2.2 (scaleRoot_ok sv').2.2.2 (List.cons.inj h3).2)

/-- every page other than the home page lies below the scale root of one of the site's hierarchies; its path is a
    list of `/`-free segments -/
theorem page_below_root (root : Dir) (rootName : Str) (M : Nat) (ps : List Page) (h : sitePages root rootName M = .ok ps)
    (hn : NamesOK root) (p : Page) (hp : p ∈ ps) :
    p.path = "/index.html".toList ∨
    ∃ sv A, Hierarchy M sv ∧ A ≠ [] ∧ (∀ a ∈ A, '/' ∉ a) ∧ p.path = '/' :: joinSlash (scaleRoot sv :: A) := by
  rcases C15.pages_classified root rootName M ps h p hp with h0 | ⟨sv, dirs, hsv, ⟨d, hd, hpath⟩ | ⟨r, hr, _, hpath, _⟩⟩
  · exact .inl h0
  · refine .inr ⟨sv, dirs ++ ["index.html".toList], hsv, by simp, ?_, by rw [hpath, catPath_segs]; rfl⟩
    intro a ha
    rcases List.mem_append.mp ha with ha | ha
    · exact (hn.1 dirs d hd a ha).2.2.2
    · have : a = "index.html".toList := by simpa using ha
      rw [this]; decide
  · obtain ⟨d, hd, _⟩ := (C15.inTree_iff ..).mp hr
    refine .inr ⟨sv, dirs ++ [stemOf r.file ++ ".html".toList], hsv, by simp, ?_, by rw [hpath, recipePath_segs]; rfl⟩
    intro a ha
    rcases List.mem_append.mp ha with ha | ha
    · exact (hn.1 dirs d hd a ha).2.2.2
    · have : a = stemOf r.file ++ ".html".toList := by simpa using ha
      rw [this]; exact (htmlSeg_ok _ (hn.2 dirs r hr)).2.2.2

theorem pageScale_of_segs (sv : Option Nat) (A : List Str) (hA : A ≠ []) : PageScale ('/' :: joinSlash (scaleRoot sv :: A)) sv :=
  .inr ⟨joinSlash A, by rw [joinSlash_cons_of_ne_nil _ _ hA]⟩

/-- every page of the site belongs to exactly one hierarchy of the site -/
theorem page_scale_exists (root : Dir) (rootName : Str) (M : Nat) (ps : List Page) (h : sitePages root rootName M = .ok ps)
    (hn : NamesOK root) (p : Page) (hp : p ∈ ps) : ∃ sv, Hierarchy M sv ∧ PageScale p.path sv := by
  rcases page_below_root root rootName M ps h hn p hp with h0 | ⟨sv, A, hsv, hA, _, hpath⟩
  · exact ⟨none, trivial, .inl ⟨h0, rfl⟩⟩
  · exact ⟨sv, hsv, hpath ▸ pageScale_of_segs sv A hA⟩

-- ================================================================ the target is the page at the reader's count
/-- the paths of the pages that show a scalable source other than the root readme: the same `/`-free segments below
    every scale root -/
theorem pageAt_segs (root : Dir) (hn : NamesOK root) (s : Source) (hin : s.Present root) (hsc : s.scalable = true)
    (hne : s ≠ .rootReadme) :
    ∃ B, B ≠ [] ∧ (∀ b ∈ B, '/' ∉ b) ∧ (∃ sv0, s.pageAt none = '/' :: joinSlash (scaleRoot sv0 :: B)) ∧
      ∀ n, s.pageAt (some n) = '/' :: joinSlash (scaleRoot (some n) :: B) := by
  have hcat : ∀ dirs d, DirAt root dirs d → ∀ b ∈ dirs ++ ["index.html".toList], '/' ∉ b := by
    intro dirs d hd b hb
    rcases List.mem_append.mp hb with hb | hb
    · exact (hn.1 dirs d hd b hb).2.2.2
    · have : b = "index.html".toList := by simpa using hb
      rw [this]; decide
  cases s with
  | rootReadme => exact absurd rfl hne
  | dir dirs =>
    obtain ⟨d, hd⟩ := hin
    exact ⟨dirs ++ ["index.html".toList], by simp, hcat dirs d hd, ⟨none, catPath_segs none dirs⟩, fun n => catPath_segs (some n) dirs⟩
  | readme dirs =>
    obtain ⟨_, d, hd, _⟩ := hin
    exact ⟨dirs ++ ["index.html".toList], by simp, hcat dirs d hd, ⟨none, catPath_segs none dirs⟩, fun n => catPath_segs (some n) dirs⟩
  | recipe dirs r =>
    have hin' : InTree root dirs r := hin
    obtain ⟨d, hd, _⟩ := (C15.inTree_iff ..).mp hin'
    have hsc' : r.servings.isSome = true := hsc
    cases hs : r.servings with
    | none => rw [hs] at hsc'; cases hsc'
    | some native =>
      have hp : ∀ sv, Source.pageAt (.recipe dirs r) sv = recipePath (some (sv.getD native)) dirs r.file := by
        intro sv
        show (match r.servings with
          | none => recipePath none dirs r.file
          | some native => recipePath (some (sv.getD native)) dirs r.file) = _
        rw [hs]
      refine ⟨dirs ++ [stemOf r.file ++ ".html".toList], by simp, ?_, ⟨some native, by rw [hp, recipePath_segs]; rfl⟩,
        fun n => by rw [hp, recipePath_segs]; rfl⟩
      intro b hb
      rcases List.mem_append.mp hb with hb | hb
      · exact (hn.1 dirs d hd b hb).2.2.2
      · have : b = stemOf r.file ++ ".html".toList := by simpa using hb
        rw [this]; exact (htmlSeg_ok _ (hn.2 dirs r hin')).2.2.2

theorem pageAt_unscalable (s : Source) (hsc : s.scalable = false) (sv : Option Nat) : s.pageAt sv = s.pageAt none := by
  cases s with
  | recipe dirs r =>
    have hsc' : r.servings.isSome = false := hsc
    show (match r.servings with
          | none => recipePath none dirs r.file
          | some native => recipePath (some (sv.getD native)) dirs r.file) =
         (match r.servings with
          | none => recipePath none dirs r.file
          | some native => recipePath (some ((none : Option Nat).getD native)) dirs r.file)
    cases hs : r.servings with
    | none => rfl
    | some n => rw [hs] at hsc'; cases hsc'
  | _ => cases hsc

/-- the website path aimed at by a link, in a page of hierarchy `sv`, to a source of the tree is the path of the page
    showing that source in hierarchy `sv` -/
theorem authoredTarget_pageAt (root : Dir) (rootName : Str) (M : Nat) (ps : List Page) (h : sitePages root rootName M = .ok ps)
    (hn : NamesOK root) (p : Page) (hp : p ∈ ps) (s : Source) (hin : s.Present root) (sv : Option Nat) (hsv : PageScale p.path sv) :
    authoredTarget p.path (s.pageAt none) s.scalable = s.pageAt sv := by
  rcases page_below_root root rootName M ps h hn p hp with h0 | ⟨sv0, A, _, hA, hAs, hpath⟩
  · have : sv = none := pageScale_unique _ _ _ hsv (.inl ⟨h0, rfl⟩)
    rw [this, h0, authoredTarget_home]
  · have : sv = sv0 := pageScale_unique _ _ _ hsv (hpath ▸ pageScale_of_segs sv0 A hA)
    rw [this, hpath]
    cases sv0 with
    | none => exact authoredTarget_categories A _ _
    | some n =>
      cases hsc : s.scalable with
      | false => rw [authoredTarget_unscalable]; exact (pageAt_unscalable s hsc (some n)).symm
      | true =>
        by_cases hne : s = .rootReadme
        · rw [hne]; exact authoredTarget_to_home _ _
        · obtain ⟨B, hB, hBs, ⟨sv1, h1⟩, h2⟩ := pageAt_segs root hn s hin hsc hne
          rw [h1, h2 n]
          exact authoredTarget_serves n sv1 A B hAs hBs hB

-- ================================================================ C14c.3 authored links lead to the linked document
/-- the core statement, for a source document `s` of the tree and its entry `(s.pageAt none, s.scalable)`: in any page
    `p` of the site, a local link whose file is `s` is rewritten to a page link `href`; decoded and resolved against `p`
    (RFC 3986 §5.2) it leads to a page `q` of the site, namely the page that shows `s` in the hierarchy `p` belongs to -/
theorem authored_link_of_source (root : Dir) (rootName : Str) (M : Nat) (ps : List Page)
    (h : sitePages root rootName M = .ok ps) (hn : NamesOK root) (hh : NoHtmlDirs root)
    (p : Page) (hp : p ∈ ps) (s : Source) (hin : s.Present root) (hc : s.CountOK M)
    (path : Str) (hpath : path ≠ []) (canon rootParts : List Str) (isFile : Bool) (assets : Str) :
    ∃ sv, Hierarchy M sv ∧ PageScale p.path sv ∧ ∃ q ∈ ps, q.path = s.pageAt sv ∧
      ∃ href, rewriteDecision [] [] path canon rootParts isFile (some (s.pageAt none, s.scalable)) p.path assets = .page href ∧
        ∃ ref, unquoteBytes href = utf8Bytes ref ∧ resolveRef p.path ref = q.path := by
  obtain ⟨sv, hsv, hps⟩ := page_scale_exists root rootName M ps h hn p hp
  obtain ⟨q, hq, hqp⟩ := List.mem_map.mp (pageAt_mem root rootName M ps h s hin hc sv hsv)
  refine ⟨sv, hsv, hps, q, hq, hqp, _, rewrite_page path hpath canon rootParts isFile _ _ p.path assets, ?_⟩
  rw [authoredTarget_pageAt root rootName M ps h hn p hp s hin sv hps, ← hqp]
  exact generated_link_resolves root rootName M ps h hn p q hp hq (page_not_prefix root rootName M ps h hn hh p q hp hq)

/-- `authored_link_target` (main): for every page `p` of the site and every entry `e` of the source → page table, the
    entry is that of a source document `s` of the tree, and a local link in `p` whose file is the entry's key
    (`lookup = some e.2`; no scheme, no network location, a non-empty path) is rewritten to a page link which — decoded and
    resolved against `p` as a browser does — is the path of a page `q` of the site: the page showing `s` in the hierarchy
    `sv` of `p` (`PageScale p.path sv`, unique by `pageScale_unique`).  By definition of `Source.pageAt` this is the page
    below `/serves<n>/` when `p` lies below `/serves<n>/` and `s` is scalable (same serving count as the referring
    page), and the entry's own page (native count / unscaled / `categories` / home) otherwise.
    In words: an authored link to anything inside the tree is never dead and lands on the linked document at the
    reader's serving count. -/
theorem authored_link_target (rn : List Str → Str) (root : Dir) (rootName : Str) (M : Nat) (ps : List Page)
    (h : sitePages root rootName M = .ok ps) (hn : NamesOK root) (hh : NoHtmlDirs root)
    (p : Page) (hp : p ∈ ps) (e : SrcEntry) (he : e ∈ sourceToPagePathsWith rn root rootName M)
    (path : Str) (hpath : path ≠ []) (canon rootParts : List Str) (isFile : Bool) (assets : Str) :
    ∃ s : Source, s.Present root ∧ e = s.entry rn ∧
    ∃ sv, Hierarchy M sv ∧ PageScale p.path sv ∧ ∃ q ∈ ps, q.path = s.pageAt sv ∧
      ∃ href, rewriteDecision [] [] path canon rootParts isFile (some e.2) p.path assets = .page href ∧
        ∃ ref, unquoteBytes href = utf8Bytes ref ∧ resolveRef p.path ref = q.path := by
  obtain ⟨s, hin, hc, rfl⟩ := entries_classified rn root rootName M e he
  exact ⟨s, hin, rfl, authored_link_of_source root rootName M ps h hn hh p hp s hin hc path hpath canon rootParts isFile assets⟩

/-- the target in terms of the entry `(w, sc)` itself: from a page of hierarchy `none` (home page, `/categories/…`) or for
    an entry that is not scalable, the link leads to `w`; from a page below `/serves<n>/`, for a scalable entry, to the
    page of the same source below `/serves<n>/` -/
theorem authored_link_target_cases (rn : List Str → Str) (root : Dir) (rootName : Str) (M : Nat) (ps : List Page)
    (h : sitePages root rootName M = .ok ps) (hn : NamesOK root) (hh : NoHtmlDirs root)
    (p : Page) (hp : p ∈ ps) (e : SrcEntry) (he : e ∈ sourceToPagePathsWith rn root rootName M)
    (path : Str) (hpath : path ≠ []) (canon rootParts : List Str) (isFile : Bool) (assets : Str) :
    ∃ s : Source, s.Present root ∧ e = s.entry rn ∧
    ∃ href, rewriteDecision [] [] path canon rootParts isFile (some e.2) p.path assets = .page href ∧
      ∃ ref, unquoteBytes href = utf8Bytes ref ∧ resolveRef p.path ref ∈ ps.map (·.path) ∧
        ((PageScale p.path none ∨ e.2.2 = false) → resolveRef p.path ref = e.2.1) ∧
        (∀ n, PageScale p.path (some n) → e.2.2 = true → resolveRef p.path ref = s.pageAt (some n)) := by
  obtain ⟨s, hin, rfl, sv, _, hps, q, hq, hqp, href, hrw, ref, hdec, hres⟩ :=
    authored_link_target rn root rootName M ps h hn hh p hp e he path hpath canon rootParts isFile assets
  refine ⟨s, hin, rfl, href, hrw, ref, hdec, hres ▸ List.mem_map.mpr ⟨q, hq, rfl⟩, ?_, ?_⟩
  · rintro (h0 | hsc)
    · rw [hres, hqp, pageScale_unique _ _ _ hps h0]; rfl
    · rw [hres, hqp, pageAt_unscalable s hsc sv]; rfl
  · intro n hn' _
    rw [hres, hqp, pageScale_unique _ _ _ hps hn']

/-- the same, spelled out by kind of page and kind of target — what `Source.pageAt` means case by case -/
theorem pageAt_cases (s : Source) (sv : Option Nat) :
    (s.scalable = false → s.pageAt sv = s.pageAt none) ∧
    (s = .rootReadme → s.pageAt sv = "/index.html".toList) ∧
    (∀ dirs, s = .dir dirs ∨ s = .readme dirs → s.pageAt sv = catPath sv dirs) ∧
    (∀ dirs r native, s = .recipe dirs r → r.servings = some native →
      s.pageAt none = recipePath (some native) dirs r.file ∧ ∀ n, s.pageAt (some n) = recipePath (some n) dirs r.file) ∧
    (∀ dirs r, s = .recipe dirs r → r.servings = none → s.pageAt sv = recipePath none dirs r.file) := by
  refine ⟨fun hsc => pageAt_unscalable s hsc sv, ?_, ?_, ?_, ?_⟩
  · rintro rfl; rfl
  · rintro dirs (rfl | rfl) <;> rfl
  · rintro dirs r native rfl hs
    have hp : ∀ sv, Source.pageAt (.recipe dirs r) sv = recipePath (some (sv.getD native)) dirs r.file := by
      intro sv
      show (match r.servings with
        | none => recipePath none dirs r.file
        | some native => recipePath (some (sv.getD native)) dirs r.file) = _
      rw [hs]
    exact ⟨hp none, fun n => hp (some n)⟩
  · rintro dirs r rfl hs
    show (match r.servings with
      | none => recipePath none dirs r.file
      | some native => recipePath (some (sv.getD native)) dirs r.file) = _
    rw [hs]

/-- `authored_link_home`: a link to the root readme leads to the home page `/index.html` from EVERY page of the site,
    also from a page below `/serves<n>/` although the entry is flagged scalable: the home page exists once, directly in
    the site root, which `resolve_local_links` recognises by the single `/` in its path -/
theorem authored_link_home (root : Dir) (rootName : Str) (M : Nat) (ps : List Page)
    (h : sitePages root rootName M = .ok ps) (hn : NamesOK root) (hh : NoHtmlDirs root) (p : Page) (hp : p ∈ ps)
    (path : Str) (hpath : path ≠ []) (canon rootParts : List Str) (isFile : Bool) (assets : Str) :
    rewriteDecision [] [] path canon rootParts isFile (some ("/index.html".toList, true)) p.path assets
        = .page (hrefRelative p.path "/index.html".toList) ∧
      ∃ ref, unquoteBytes (hrefRelative p.path "/index.html".toList) = utf8Bytes ref ∧ resolveRef p.path ref = "/index.html".toList := by
  refine ⟨by rw [rewrite_page path hpath, authoredTarget_to_home], ?_⟩
  have hq := homePage_mem root rootName M ps h
  exact generated_link_resolves root rootName M ps h hn p _ hp hq (page_not_prefix root rootName M ps h hn hh p _ hp hq)

/-- the decision without the "more than one `/`" condition (the code before the repair of the defect "scaled page → home
    README link becomes `..`") -/
def authoredTargetUnrepaired (frm w : Str) (sc : Bool) : Str :=
  if rewriteDecision.isPrefixOfList "/serves".toList frm && sc then
    joinSlash ((splitSlash frm).take 2 ++ (splitSlash w).drop 2)
  else w

/-- the condition is needed: without it a link to the root readme in `/serves2/Cakes/sponge.html` is written as `..`,
    which resolves to the directory `/serves2/`, not to a page (and in `/serves2/soup.html` it is written as the empty
    reference, i.e. the page links to itself); with it the link is `../../index.html` -/
theorem home_condition_needed :
    hrefRelative "/serves2/Cakes/sponge.html".toList
      (authoredTargetUnrepaired "/serves2/Cakes/sponge.html".toList "/index.html".toList true) = "..".toList ∧
    resolveRef "/serves2/Cakes/sponge.html".toList "..".toList = "/serves2/".toList ∧
    hrefRelative "/serves2/soup.html".toList (authoredTargetUnrepaired "/serves2/soup.html".toList "/index.html".toList true) = [] ∧
    hrefRelative "/serves2/Cakes/sponge.html".toList
      (authoredTarget "/serves2/Cakes/sponge.html".toList "/index.html".toList true) = "../../index.html".toList ∧
    resolveRef "/serves2/Cakes/sponge.html".toList "../../index.html".toList = "/index.html".toList := by
  decide

-- ================================================================ trees that can exist on a file system
/-- what holds for every directory (reached by `dirs`) of a source tree that exists on a file system and meets the name
    conditions of C14: the directory names on the way are proper path segments not ending in `.html`; recipe stems
    contain no `/`, no recipe states 0 servings; the entries of the directory (sub-directories, recipe files, the
    readme if there is one) have pairwise different names -/
def DirOK (rn : List Str → Str) (dirs : List Str) (d : Dir) : Prop :=
  (∀ s ∈ dirs, SegOK s ∧ ¬ ".html".toList <:+ s) ∧
  (∀ r ∈ d.recipes, '/' ∉ stemOf r.file ∧ r.servings ≠ some 0) ∧
  (d.subdirs.map Dir.name).Nodup ∧ (d.recipes.map (·.file)).Nodup ∧
  (∀ r ∈ d.recipes, r.file ∉ d.subdirs.map Dir.name) ∧
  (d.readmeTitle.isSome = true → rn dirs ∉ d.subdirs.map Dir.name ∧ rn dirs ∉ d.recipes.map (·.file))

instance (rn : List Str → Str) (dirs : List Str) (d : Dir) : Decidable (DirOK rn dirs d) := by
  unfold DirOK SegOK; infer_instance

def TreeOK (rn : List Str → Str) (root : Dir) : Prop := ∀ dirs d, DirAt root dirs d → DirOK rn dirs d

mutual
/-- executable form of `TreeOK` -/
def treeOKb (rn : List Str → Str) (dirs : List Str) : Dir → Bool
  | .mk n rd recs subs => decide (DirOK rn dirs (.mk n rd recs subs)) && treeOKbList rn dirs subs
def treeOKbList (rn : List Str → Str) (dirs : List Str) : List Dir → Bool
  | [] => true
  | d :: ds => treeOKb rn (dirs ++ [d.name]) d && treeOKbList rn dirs ds
end

theorem treeOKbList_mem (rn : List Str → Str) (dirs : List Str) (ds : List Dir) (h : treeOKbList rn dirs ds = true) :
    ∀ s ∈ ds, treeOKb rn (dirs ++ [s.name]) s = true := by
  induction ds with
  | nil => intro s hs; cases hs
  | cons d ds ih =>
    simp only [treeOKbList, Bool.and_eq_true] at h
    intro s hs
    rcases List.mem_cons.mp hs with rfl | hs
    · exact h.1
    · exact ih h.2 s hs

theorem treeOKb_sound (rn : List Str → Str) : ∀ (d : Dir) (dirs0 : List Str), treeOKb rn dirs0 d = true →
    ∀ rel d', DirAt d rel d' → DirOK rn (dirs0 ++ rel) d' := by
  intro d
  induction d using Dir.ind with
  | h n rd recs subs ih =>
    intro dirs0 hb rel d' hd
    simp only [treeOKb, Bool.and_eq_true, decide_eq_true_eq] at hb
    cases hd with
    | here => rw [List.append_nil]; exact hb.1
    | sub hs hd =>
      have := ih _ hs _ (treeOKbList_mem rn dirs0 subs hb.2 _ hs) _ _ hd
      rwa [List.append_assoc] at this

theorem treeOK_of_check (rn : List Str → Str) (root : Dir) (h : treeOKb rn [] root = true) : TreeOK rn root := by
  intro dirs d hd
  have := treeOKb_sound rn root [] h dirs d hd
  rwa [List.nil_append] at this

theorem treeOK_namesOK (rn : List Str → Str) (root : Dir) (h : TreeOK rn root) : NamesOK root :=
  ⟨fun dirs d hd s hs => ((h dirs d hd).1 s hs).1,
   fun dirs r hr => by
    obtain ⟨d, hd, hrd⟩ := (C15.inTree_iff ..).mp hr
    exact ((h dirs d hd).2.1 r hrd).1⟩

theorem treeOK_noHtmlDirs (rn : List Str → Str) (root : Dir) (h : TreeOK rn root) : NoHtmlDirs root :=
  fun dirs d hd s hs => ((h dirs d hd).1 s hs).2

theorem treeOK_servingsPositive (rn : List Str → Str) (root : Dir) (h : TreeOK rn root) : ServingsPositive root :=
  fun dirs r hr => by
    obtain ⟨d, hd, hrd⟩ := (C15.inTree_iff ..).mp hr
    exact ((h dirs d hd).2.1 r hrd).2

theorem treeOK_sub (rn : List Str → Str) (root s : Dir) (hs : s ∈ root.subdirs) (h : TreeOK rn root) :
    TreeOK (fun dirs => rn (s.name :: dirs)) s := by
  intro dirs d hd
  obtain ⟨h1, h2, h3, h4, h5, h6⟩ := h (s.name :: dirs) d (DirAt.sub hs hd)
  exact ⟨fun x hx => h1 x (List.mem_cons_of_mem _ hx), h2, h3, h4, h5, h6⟩

/-- a path of directory names leads to at most one directory -/
theorem dirAt_unique : ∀ (dirs : List Str) (rn : List Str → Str) (root : Dir), TreeOK rn root → ∀ d d',
    DirAt root dirs d → DirAt root dirs d' → d = d' := by
  intro dirs
  induction dirs with
  | nil =>
    intro _ root _ d d' h1 h2
    cases h1; cases h2; rfl
  | cons x dirs ih =>
    intro rn root hk d d' h1 h2
    have hnd := (hk [] root (DirAt.here root)).2.2.1
    cases h1 with
    | sub hs1 hd1 =>
      rename_i s1
      generalize hx : s1.name = x at h2
      cases h2 with
      | sub hs2 hd2 =>
        rename_i s2
        have : s1 = s2 := nodup_map_inj Dir.name root.subdirs hnd s1 hs1 s2 hs2 hx
        subst this
        exact ih _ s1 (treeOK_sub rn root s1 hs1 hk) d d' hd1 hd2

/-- the directory reached by `dirs ++ [x]` is the sub-directory called `x` of the directory reached by `dirs` -/
theorem dirAt_snoc : ∀ (dirs : List Str) (root : Dir) (x : Str) (d : Dir), DirAt root (dirs ++ [x]) d →
    ∃ d', DirAt root dirs d' ∧ d ∈ d'.subdirs ∧ d.name = x := by
  intro dirs
  induction dirs with
  | nil =>
    intro root x d h
    generalize hl : [] ++ [x] = l at h
    cases h with
    | here => simp at hl
    | sub hs hd =>
      rename_i s rel
      have hl' : x = s.name ∧ rel = [] := by simpa [eq_comm] using hl
      obtain ⟨h1, h2⟩ := hl'
      subst h2
      cases hd
      exact ⟨root, DirAt.here root, hs, h1.symm⟩
  | cons y dirs ih =>
    intro root x d h
    generalize hl : (y :: dirs) ++ [x] = l at h
    cases h with
    | here => simp at hl
    | sub hs hd =>
      rename_i s rel
      have hl' : y = s.name ∧ dirs ++ [x] = rel := by simpa using hl
      obtain ⟨h1, h2⟩ := hl'
      subst h2
      obtain ⟨d', hd', hmem, hname⟩ := ih s x d hd
      exact ⟨d', h1 ▸ DirAt.sub hs hd', hmem, hname⟩

/-- `TreeOK` trees have `KeysDistinct`: different source documents have different paths -/
theorem treeOK_keysDistinct (rn : List Str → Str) (root : Dir) (hk : TreeOK rn root) : KeysDistinct rn root := by
  -- no directory is called like the readme next to it
  have hA : ∀ dirs d0 d, DirAt root dirs d0 → d0.readmeTitle.isSome = true → DirAt root (dirs ++ [rn dirs]) d → False := by
    intro dirs d0 d hd0 hrd hd
    obtain ⟨d', hd', hmem, hname⟩ := dirAt_snoc dirs root _ d hd
    have : d' = d0 := dirAt_unique dirs rn root hk d' d0 hd' hd0
    subst this
    exact ((hk dirs d' hd').2.2.2.2.2 hrd).1 (List.mem_map.mpr ⟨d, hmem, hname⟩)
  -- no recipe file is called like the readme next to it
  have hB : ∀ dirs d0 r, DirAt root dirs d0 → d0.readmeTitle.isSome = true → InTree root dirs r → r.file = rn dirs → False := by
    intro dirs d0 r hd0 hrd hr hfile
    obtain ⟨d', hd', hmem⟩ := (C15.inTree_iff ..).mp hr
    have : d' = d0 := dirAt_unique dirs rn root hk d' d0 hd' hd0
    subst this
    exact ((hk dirs d' hd').2.2.2.2.2 hrd).2 (List.mem_map.mpr ⟨r, hmem, hfile⟩)
  -- no directory is called like a recipe file next to it
  have hC : ∀ dirs r d, InTree root dirs r → DirAt root (dirs ++ [r.file]) d → False := by
    intro dirs r d hr hd
    obtain ⟨d0, hd0, hmem0⟩ := (C15.inTree_iff ..).mp hr
    obtain ⟨d', hd', hmem, hname⟩ := dirAt_snoc dirs root _ d hd
    have : d' = d0 := dirAt_unique dirs rn root hk d' d0 hd' hd0
    subst this
    exact (hk dirs d' hd').2.2.2.2.1 r hmem0 (List.mem_map.mpr ⟨d, hmem, hname⟩)
  have snoc_inj : ∀ (a b : List Str) (x y : Str), a ++ [x] = b ++ [y] → a = b ∧ x = y := by
    intro a b x y h
    have := List.append_inj' h rfl
    exact ⟨this.1, by simpa using this.2⟩
  intro s s' hin hin' hkey
  cases s with
  | rootReadme =>
    cases s' with
    | rootReadme => rfl
    | dir dirs =>
      obtain ⟨d, hd⟩ := hin'
      have hkey' : [rn []] = dirs := hkey
      rw [← hkey'] at hd
      exact (hA [] root d (DirAt.here root) hin hd).elim
    | readme dirs =>
      have hkey' : [] ++ [rn []] = dirs ++ [rn dirs] := hkey
      exact absurd (snoc_inj _ _ _ _ hkey').1.symm hin'.1
    | recipe dirs r =>
      have hkey' : [] ++ [rn []] = dirs ++ [r.file] := hkey
      obtain ⟨h1, h2⟩ := snoc_inj _ _ _ _ hkey'
      subst h1
      exact (hB [] root r (DirAt.here root) hin hin' h2.symm).elim
  | dir dirs =>
    cases s' with
    | rootReadme =>
      obtain ⟨d, hd⟩ := hin
      have hkey' : dirs = [rn []] := hkey
      rw [hkey'] at hd
      exact (hA [] root d (DirAt.here root) hin' hd).elim
    | dir dirs' =>
      have hkey' : dirs = dirs' := hkey
      rw [hkey']
    | readme dirs' =>
      obtain ⟨d, hd⟩ := hin
      obtain ⟨_, d0, hd0, hrd⟩ := hin'
      have hkey' : dirs = dirs' ++ [rn dirs'] := hkey
      rw [hkey'] at hd
      exact (hA dirs' d0 d hd0 hrd hd).elim
    | recipe dirs' r =>
      obtain ⟨d, hd⟩ := hin
      have hkey' : dirs = dirs' ++ [r.file] := hkey
      rw [hkey'] at hd
      exact (hC dirs' r d hin' hd).elim
  | readme dirs =>
    obtain ⟨hne, d0, hd0, hrd⟩ := hin
    cases s' with
    | rootReadme =>
      have hkey' : dirs ++ [rn dirs] = [] ++ [rn []] := hkey
      exact absurd (snoc_inj _ _ _ _ hkey').1 hne
    | dir dirs' =>
      obtain ⟨d, hd⟩ := hin'
      have hkey' : dirs ++ [rn dirs] = dirs' := hkey
      rw [← hkey'] at hd
      exact (hA dirs d0 d hd0 hrd hd).elim
    | readme dirs' =>
      have hkey' : dirs ++ [rn dirs] = dirs' ++ [rn dirs'] := hkey
      rw [(snoc_inj _ _ _ _ hkey').1]
    | recipe dirs' r =>
      have hkey' : dirs ++ [rn dirs] = dirs' ++ [r.file] := hkey
      obtain ⟨h1, h2⟩ := snoc_inj _ _ _ _ hkey'
      subst h1
      exact (hB dirs d0 r hd0 hrd hin' h2.symm).elim
  | recipe dirs r =>
    have hr : InTree root dirs r := hin
    cases s' with
    | rootReadme =>
      have hkey' : dirs ++ [r.file] = [] ++ [rn []] := hkey
      obtain ⟨h1, h2⟩ := snoc_inj _ _ _ _ hkey'
      subst h1
      exact (hB [] root r (DirAt.here root) hin' hr h2).elim
    | dir dirs' =>
      obtain ⟨d, hd⟩ := hin'
      have hkey' : dirs ++ [r.file] = dirs' := hkey
      rw [← hkey'] at hd
      exact (hC dirs r d hr hd).elim
    | readme dirs' =>
      obtain ⟨_, d0, hd0, hrd⟩ := hin'
      have hkey' : dirs ++ [r.file] = dirs' ++ [rn dirs'] := hkey
      obtain ⟨h1, h2⟩ := snoc_inj _ _ _ _ hkey'
      subst h1
      exact (hB dirs d0 r hd0 hrd hr h2).elim
    | recipe dirs' r' =>
      have hr' : InTree root dirs' r' := hin'
      have hkey' : dirs ++ [r.file] = dirs' ++ [r'.file] := hkey
      obtain ⟨h1, h2⟩ := snoc_inj _ _ _ _ hkey'
      subst h1
      obtain ⟨d, hd, hm⟩ := (C15.inTree_iff ..).mp hr
      obtain ⟨d', hd', hm'⟩ := (C15.inTree_iff ..).mp hr'
      have : d' = d := dirAt_unique dirs rn root hk d' d hd' hd
      subst this
      have : r = r' := nodup_map_inj (·.file) d'.recipes (hk dirs d' hd').2.2.2.1 r hm r' hm' h2
      rw [this]

-- ================================================================ C14c.4 end to end, by path
/-- for a tree that can exist on a file system (`TreeOK`): a local link, in any page `p` of the site, whose resolved
    file is the source document `s` of the tree — the table is consulted with the document's path — is rewritten to a
    page link that leads to the page showing `s` in the hierarchy of `p`; that page exists.  No authored link into the
    tree is dead, and none lands on another document or another serving count than the reader's. -/
theorem authored_link_by_path (rn : List Str → Str) (root : Dir) (rootName : Str) (M : Nat) (ps : List Page)
    (h : sitePages root rootName M = .ok ps) (hk : TreeOK rn root) (hM : 1 ≤ M)
    (p : Page) (hp : p ∈ ps) (s : Source) (hin : s.Present root)
    (path : Str) (hpath : path ≠ []) (canon rootParts : List Str) (isFile : Bool) (assets : Str) :
    ∃ sv, Hierarchy M sv ∧ PageScale p.path sv ∧ ∃ q ∈ ps, q.path = s.pageAt sv ∧
      ∃ href, rewriteDecision [] [] path canon rootParts isFile
          (dictLookup (s.key rn) (sourceToPagePathsWith rn root rootName M)) p.path assets = .page href ∧
        ∃ ref, unquoteBytes href = utf8Bytes ref ∧ resolveRef p.path ref = q.path := by
  have hpos := treeOK_servingsPositive rn root hk
  rw [sources_lookup rn root rootName M ps h hpos hM (treeOK_keysDistinct rn root hk) s hin]
  exact authored_link_of_source root rootName M ps h (treeOK_namesOK rn root hk) (treeOK_noHtmlDirs rn root hk) p hp s hin
    (countOK_of_site root rootName M ps h hpos s hin) path hpath canon rootParts isFile assets

-- ================================================================ non-vacuity: a concrete tree
/-- two directories (one with a readme called `index.md`, one with a space and a non-ASCII letter in its name), a root
    readme, a scalable recipe at the root, a scalable and an unscalable recipe in `Cakes` -/
def linkTree : Dir :=
  .mk "book".toList (some "My book".toList) [⟨"soup.md".toList, "Soup".toList, some 2⟩]
    [.mk "Cakes".toList (some "All cakes".toList)
        [⟨"tiffin.md".toList, "Tiffin".toList, none⟩, ⟨"sponge cake.md".toList, "Sponge".toList, some 1⟩] [],
     .mk "Sauces é".toList none [] []]

def linkReadmes : List Str → Str := readmeNamesOf [(["Cakes".toList], "index.md".toList)]

def linkSite : List Page := match sitePages linkTree "book".toList 2 with | .ok ps => ps | .error _ => []

theorem linkSite_ok : sitePages linkTree "book".toList 2 = .ok linkSite := by
  unfold linkSite
  cases h : sitePages linkTree "book".toList 2 with
  | ok ps => rfl
  | error e =>
    cases e with
    | maxServingsTooLow n =>
      have := (C15.too_many_servings_iff linkTree "book".toList 2).mp ⟨n, h⟩
      exact absurd this (by decide)

theorem linkTree_ok : TreeOK linkReadmes linkTree := treeOK_of_check _ _ (by decide +kernel)

/-- the table of the example, in dict order -/
theorem linkTree_table : sourceToPagePathsWith linkReadmes linkTree "book".toList 2 =
    [(["README.md".toList], ("/index.html".toList, true)),
     (["Cakes".toList, "sponge cake.md".toList], ("/serves1/Cakes/sponge cake.html".toList, true)),
     (["Cakes".toList, "tiffin.md".toList], ("/categories/Cakes/tiffin.html".toList, false)),
     (["soup.md".toList], ("/serves2/soup.html".toList, true)),
     ([], ("/categories/index.html".toList, true)),
     (["Cakes".toList, "index.md".toList], ("/categories/Cakes/index.html".toList, true)),
     (["Cakes".toList], ("/categories/Cakes/index.html".toList, true)),
     (["Sauces é".toList], ("/categories/Sauces é/index.html".toList, true))] := by decide +kernel

theorem linkSite_paths : linkSite.map (·.path) =
    ["/index.html".toList,
     "/serves1/index.html".toList, "/serves1/Cakes/index.html".toList, "/serves1/Cakes/sponge cake.html".toList,
     "/serves1/Sauces é/index.html".toList, "/serves1/soup.html".toList,
     "/serves2/index.html".toList, "/serves2/Cakes/index.html".toList, "/serves2/Cakes/sponge cake.html".toList,
     "/serves2/Sauces é/index.html".toList, "/serves2/soup.html".toList,
     "/categories/index.html".toList, "/categories/Cakes/index.html".toList, "/categories/Cakes/tiffin.html".toList,
     "/categories/Sauces é/index.html".toList] := by decide +kernel

/-- the hypotheses of the theorems hold for the example, for all of its 15 pages and 8 entries -/
example : ∀ p ∈ linkSite, ∀ e ∈ sourceToPagePathsWith linkReadmes linkTree "book".toList 2,
    ∃ s : Source, s.Present linkTree ∧ e = s.entry linkReadmes ∧
    ∃ sv, Hierarchy 2 sv ∧ PageScale p.path sv ∧ ∃ q ∈ linkSite, q.path = s.pageAt sv ∧
      ∃ href, rewriteDecision [] [] "x.md".toList [] [] true (some e.2) p.path "/assets".toList = .page href ∧
        ∃ ref, unquoteBytes href = utf8Bytes ref ∧ resolveRef p.path ref = q.path :=
  fun p hp e he => authored_link_target linkReadmes linkTree "book".toList 2 linkSite linkSite_ok
    (treeOK_namesOK _ _ linkTree_ok) (treeOK_noHtmlDirs _ _ linkTree_ok) p hp e he _ (by decide) [] [] true _

example : (sourceToPagePathsWith linkReadmes linkTree "book".toList 2).length = 8 ∧ linkSite.length = 15 := by
  refine ⟨by rw [linkTree_table]; rfl, ?_⟩
  have := congrArg List.length linkSite_paths
  rw [List.length_map] at this
  rw [this]; rfl

example : (Source.recipe ["Cakes".toList] ⟨"tiffin.md".toList, "Tiffin".toList, none⟩).Present linkTree :=
  InTree.sub (s := .mk "Cakes".toList (some "All cakes".toList)
      [⟨"tiffin.md".toList, "Tiffin".toList, none⟩, ⟨"sponge cake.md".toList, "Sponge".toList, some 1⟩] [])
    (by simp [linkTree, Dir.subdirs]) (InTree.here (by simp [Dir.recipes]))

/-- what the code writes in the example (the table is consulted by path), and where a browser lands:
    * from the `serves1` page of the sponge cake, `../soup.md` leads to the soup FOR 1 (its native count is 2);
    * from the `categories` page of `Cakes`, to the soup at its native count;
    * from the soup for 2, `Cakes/tiffin.md` (no stated count) leads to its only page under `categories`;
    * from the soup for 2, `Cakes/` and `Cakes/index.md` lead to the `Cakes` page of `serves2`;
    * from a page two levels down in `serves2`, the root readme leads to the home page -/
example :
    let tab := sourceToPagePathsWith linkReadmes linkTree "book".toList 2
    let go := fun (frm : String) (key : List String) =>
      match rewriteDecision [] [] "x".toList [] [] true (dictLookup (key.map String.toList) tab) frm.toList "/assets".toList with
      | .page h => some (String.ofList h, String.ofList (resolveRef frm.toList (relativePath frm.toList
          (authoredTarget frm.toList ((dictLookup (key.map String.toList) tab).getD ([], false)).1
            ((dictLookup (key.map String.toList) tab).getD ([], false)).2))))
      | _ => none
    go "/serves1/Cakes/sponge cake.html" ["soup.md"] = some ("../soup.html", "/serves1/soup.html") ∧
    go "/categories/Cakes/index.html" ["soup.md"] = some ("../../serves2/soup.html", "/serves2/soup.html") ∧
    go "/serves2/soup.html" ["Cakes", "tiffin.md"] = some ("../categories/Cakes/tiffin.html", "/categories/Cakes/tiffin.html") ∧
    go "/serves2/soup.html" ["Cakes"] = some ("Cakes/index.html", "/serves2/Cakes/index.html") ∧
    go "/serves2/soup.html" ["Cakes", "index.md"] = some ("Cakes/index.html", "/serves2/Cakes/index.html") ∧
    go "/serves2/Cakes/sponge cake.html" ["README.md"] = some ("../../index.html", "/index.html") ∧
    go "/index.html" ["Sauces é"] = some ("categories/Sauces%20%C3%A9/index.html", "/categories/Sauces é/index.html") := by
  decide +kernel

end RG.C14
