import RecipeGrid.Model.Lint
namespace RG.C20
theorem lint_empty : lintF [] = some [] ∧ lintQ [] = some [] := by decide
end RG.C20
