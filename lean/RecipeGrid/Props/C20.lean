import RecipeGrid.Lemmas.Lint
/-! C20: the recipe linter. `lintF` is `lint.py` in binary64, `lintQ` the same decision procedure over exact
    rationals (the documented meaning). Only specification definitions, property theorems and examples;
    helper lemmas are in `Lemmas/Lint.lean`. -/
namespace RG.C20

theorem lint_empty : lintF [] = some [] ∧ lintQ [] = some [] := by decide

-- ================================================================ C20.2 the decision table (exact layer)
/-- exact conversion factor from the unit of a use `q` to the unit of the total `tq`;
    `none`: one has a unit and the other has none, or the unit system cannot convert -/
def factorQ (q tq : Quantity) : Option Rat :=
  match q.unit, tq.unit with
  | some u, some tu => (convertBetween true (lowerStr u) (lowerStr tu)).map (·.val)
  | none, none => some 1
  | _, _ => none

/-- what one use does to the accumulated proportion `u` -/
def stepUsedQ (total : Option Quantity) (u : Rat) : Amount → Rat
  | .quantity q =>
    match total with
    | none => u
    | some tq =>
      match factorQ q tq with
      | none => u
      | some c => u + q.value.val * c / tq.value.val
  | .proportion none _ _ _ => max 1 u
  | .proportion (some v) _ _ _ => u + v.val

/-- the lint (at most one) a use raises when the accumulated proportion is `u` -/
def stepLintQ (total : Option Quantity) (u : Rat) : Amount → Option LintKind
  | .quantity q =>
    match total with
    | none => some .quantityUnknown
    | some tq => if (factorQ q tq).isNone then some .incompatibleUnits else none
  | .proportion none _ _ _ => if u ≥ 1 then some .nonPositiveRemainder else none
  | .proportion (some _) _ _ _ => none

/-- the accumulated proportion after all uses, starting from `u` -/
def usedQ (total : Option Quantity) : Rat → List Amount → Rat
  | u, [] => u
  | u, a :: as => usedQ total (stepUsedQ total u a) as

/-- the lints raised while accumulating, in order -/
def lintsQ (total : Option Quantity) : Rat → List Amount → List LintKind
  | _, [] => []
  | u, a :: as => (stepLintQ total u a).toList ++ lintsQ total (stepUsedQ total u a) as

/-- the contribution of a use that is not a remainder -/
def contribQ (total : Option Quantity) : Amount → Rat
  | .quantity q =>
    match total with
    | none => 0
    | some tq =>
      match factorQ q tq with
      | none => 0
      | some c => q.value.val * c / tq.value.val
  | .proportion none _ _ _ => 0
  | .proportion (some v) _ _ _ => v.val

def isRemainder : Amount → Bool
  | .proportion none _ _ _ => true
  | _ => false

def absQ (x : Rat) : Rat := if x < 0 then -x else x
/-- `isclose(u, 1, rel_tol = 0.02)` over the rationals -/
def CloseQ (u : Rat) : Prop := absQ (u - 1) ≤ (2 / 100 : Rat) * max u 1
instance (u : Rat) : Decidable (CloseQ u) := inferInstanceAs (Decidable (_ ≤ _))

/-- everything reported for one output: the lints met on the way, then the verdict if there was none -/
def outputLintsQ (total : Option Quantity) (amounts : List Amount) : List LintKind :=
  lintsQ total 0 amounts ++ (if lintsQ total 0 amounts = [] then sumVerdict true (usedQ total 0 amounts) else [])

theorem factorQ_eq (q tq : Quantity) : factorQ q tq = (convFactor true q tq).map (·.val) := by
  cases hq : q.unit <;> cases ht : tq.unit <;> simp [factorQ, convFactor, hq, ht]

/-- a quantity use while the total is unknown: exactly one `quantityUnknown`, `problem` is set -/
theorem step_quantity_unknown (st : SumState) (q : Quantity) :
    sumStep true none st (.quantity q) =
      some { st with problem := true, lints := st.lints ++ [.quantityUnknown] } := rfl

/-- a quantity use whose unit cannot be converted: exactly one `incompatibleUnits`, `problem` is set -/
theorem step_incompatible (tq : Quantity) (st : SumState) (q : Quantity) (h : factorQ q tq = none) :
    sumStep true (some tq) st (.quantity q) =
      some { st with problem := true, lints := st.lints ++ [.incompatibleUnits] } := by
  rw [factorQ_eq] at h
  rw [sumStep_quantity_some]
  cases hc : convFactor true q tq with
  | none => rfl
  | some c => simp [hc] at h

theorem factorQ_none_iff (q tq : Quantity) :
    factorQ q tq = none ↔
      (q.unit.isSome ≠ tq.unit.isSome) ∨
      ∃ u tu, q.unit = some u ∧ tq.unit = some tu ∧ convertBetween true (lowerStr u) (lowerStr tu) = none := by
  cases hq : q.unit <;> cases ht : tq.unit <;> simp [factorQ, hq, ht]

/-- a convertible quantity use adds `value · factor / total`; nothing is reported -/
theorem step_compatible (tq : Quantity) (st : SumState) (q : Quantity) (c : Rat) (h : factorQ q tq = some c)
    (hz : tq.value.val ≠ 0) :
    ∃ st', sumStep true (some tq) st (.quantity q) = some st' ∧
      st'.used.val = st.used.val + q.value.val * c / tq.value.val ∧
      st'.problem = st.problem ∧ st'.lints = st.lints := by
  rw [factorQ_eq] at h
  rw [sumStep_quantity_some]
  cases hc : convFactor true q tq with
  | none => simp [hc] at h
  | some c' =>
    simp only [hc, Option.map_some, Option.some.injEq] at h
    subst h
    simp [numDiv, numMul, numAdd, hz]

/-- a remainder raises the accumulated proportion to `max 1 u`, and reports `nonPositiveRemainder`
    exactly when `u ≥ 1` already -/
theorem step_remainder (total : Option Quantity) (st : SumState) (p : Bool) (w : Option Str) (s : Str) :
    ∃ st', sumStep true total st (.proportion none p w s) = some st' ∧
      st'.used.val = max 1 st.used.val ∧
      (st.used.val ≥ 1 → st'.problem = true ∧ st'.lints = st.lints ++ [.nonPositiveRemainder]) ∧
      (st.used.val < 1 → st'.problem = st.problem ∧ st'.lints = st.lints) := by
  refine ⟨_, rfl, ?_, ?_, ?_⟩
  · by_cases h : st.used.val ≥ 1
    · simp only [h, if_true]
      split <;> grind
    · simp only [h, if_false]
      split <;> grind
  · intro h
    simp [h]
  · intro h
    have : ¬ st.used.val ≥ 1 := by grind
    simp [this]

/-- a given proportion is added -/
theorem step_proportion (total : Option Quantity) (st : SumState) (v : Num) (p : Bool) (w : Option Str) (s : Str) :
    sumStep true total st (.proportion (some v) p w s) =
      some { st with used := ⟨st.used.val + v.val, .frac⟩ } := rfl

/-- one step of the loop is one row of the table -/
theorem sumStep_spec (total : Option Quantity) (h : ∀ tq, total = some tq → tq.value.val ≠ 0)
    (st : SumState) (a : Amount) :
    ∃ st', sumStep true total st a = some st' ∧
      st'.used.val = stepUsedQ total st.used.val a ∧
      st'.lints = st.lints ++ (stepLintQ total st.used.val a).toList ∧
      st'.problem = (st.problem || (stepLintQ total st.used.val a).isSome) := by
  cases a with
  | quantity q =>
    cases total with
    | none => exact ⟨_, rfl, rfl, rfl, by simp [stepLintQ]⟩
    | some tq =>
      cases hf : factorQ q tq with
      | none =>
        refine ⟨_, step_incompatible tq st q hf, ?_, ?_, ?_⟩ <;> simp [stepUsedQ, stepLintQ, hf]
      | some c =>
        obtain ⟨st', h1, h2, h3, h4⟩ := step_compatible tq st q c hf (h tq rfl)
        refine ⟨st', h1, ?_, ?_, ?_⟩ <;> simp [stepUsedQ, stepLintQ, hf, h2, h3, h4]
  | proportion v p w s =>
    cases v with
    | some v => exact ⟨_, rfl, rfl, by simp [stepLintQ], by simp [stepLintQ]⟩
    | none =>
      obtain ⟨st', h1, h2, h3, h4⟩ := step_remainder total st p w s
      refine ⟨st', h1, h2, ?_, ?_⟩
      · by_cases hu : st.used.val ≥ 1
        · simp [stepLintQ, hu, (h3 hu).2]
        · simp [stepLintQ, hu, (h4 (by grind)).2]
      · by_cases hu : st.used.val ≥ 1
        · simp [stepLintQ, hu, (h3 hu).1]
        · simp [stepLintQ, hu, (h4 (by grind)).1]

/-- the loop from any state -/
theorem sumRefs_spec_from (total : Option Quantity) (h : ∀ tq, total = some tq → tq.value.val ≠ 0) :
    ∀ (amounts : List Amount) (st : SumState),
    ∃ st', sumRefs true total st amounts = some st' ∧
      st'.used.val = usedQ total st.used.val amounts ∧
      st'.lints = st.lints ++ lintsQ total st.used.val amounts ∧
      st'.problem = (st.problem || !(lintsQ total st.used.val amounts).isEmpty)
  | [], st => ⟨st, rfl, rfl, by simp [lintsQ], by simp [lintsQ]⟩
  | a :: as, st => by
    obtain ⟨st1, h1, h2, h3, h4⟩ := sumStep_spec total h st a
    obtain ⟨st', g1, g2, g3, g4⟩ := sumRefs_spec_from total h as st1
    refine ⟨st', by simp [sumRefs, h1, g1], ?_, ?_, ?_⟩
    · rw [g2, h2]; rfl
    · rw [g3, h3, h2, List.append_assoc]; rfl
    · rw [g4, h4, h2]
      cases hl : stepLintQ total st.used.val a <;> simp [lintsQ, hl]

/-- C20.2 closed form of the per-output accumulation: as long as no zero total is divided by, the loop ends
    with the accumulated proportion `usedQ`, the lints `lintsQ`, and `problem` set iff a lint was raised -/
theorem sumRefs_closed (total : Option Quantity) (h : ∀ tq, total = some tq → tq.value.val ≠ 0)
    (amounts : List Amount) :
    ∃ st, sumRefs true total {} amounts = some st ∧
      st.used.val = usedQ total 0 amounts ∧
      st.lints = lintsQ total 0 amounts ∧
      st.problem = !(lintsQ total 0 amounts).isEmpty := by
  obtain ⟨st, h1, h2, h3, h4⟩ := sumRefs_spec_from total h amounts {}
  exact ⟨st, h1, h2, by simpa using h3, by simpa using h4⟩

/-- the total the linter infers is never zero (the repository fix maps a zero total to "unknown") -/
theorem totalQuantity_nonzero {s : Tree} {q : Quantity} (h : totalQuantity s = some q) : q.value.val ≠ 0 :=
  RG.totalQuantity_nonzero h

theorem usedQ_append (total : Option Quantity) : ∀ (l1 l2 : List Amount) (u : Rat),
    usedQ total u (l1 ++ l2) = usedQ total (usedQ total u l1) l2
  | [], _, _ => rfl
  | a :: l1, l2, u => by simp [usedQ, usedQ_append total l1 l2]

/-- without remainders the accumulated proportion is the exact sum `Σ value·factor/total` resp. `Σ value` -/
theorem usedQ_sum (total : Option Quantity) : ∀ (amounts : List Amount) (u : Rat),
    (∀ a ∈ amounts, isRemainder a = false) → usedQ total u amounts = u + (amounts.map (contribQ total)).sum
  | [], u, _ => by simp [usedQ, Rat.add_zero]
  | a :: as, u, h => by
    have ih := usedQ_sum total as (stepUsedQ total u a) (fun x hx => h x (List.mem_cons_of_mem _ hx))
    have ha := h a List.mem_cons_self
    have hs : stepUsedQ total u a = u + contribQ total a := by
      cases a with
      | quantity q =>
        cases total with
        | none => simp [stepUsedQ, contribQ, Rat.add_zero]
        | some tq => cases hf : factorQ q tq <;> simp [stepUsedQ, contribQ, hf, Rat.add_zero]
      | proportion v p w s =>
        cases v with
        | none => simp [isRemainder] at ha
        | some v => rfl
    simp only [usedQ]
    rw [ih, hs]
    simp only [List.map_cons, List.sum_cons, Rat.add_assoc]

/-- a remainder resets the accumulation to `max 1 (what was used before)` -/
theorem usedQ_remainder (total : Option Quantity) (pre post : List Amount) (p : Bool) (w : Option Str) (s : Str)
    (u : Rat) :
    usedQ total u (pre ++ .proportion none p w s :: post) = usedQ total (max 1 (usedQ total u pre)) post := by
  rw [usedQ_append]; rfl

theorem closeQ_iff (u : Rat) :
    CloseQ u ↔ (if u < 1 then 1 - u else u - 1) ≤ mkRat 2 100 * (if u < 1 then 1 else u) := by
  have h2 : mkRat 2 100 = (2 / 100 : Rat) := by decide +kernel
  unfold CloseQ absQ
  rw [h2]
  by_cases h : u < 1
  · have h1 : u - 1 < 0 := by grind
    have h3 : max u 1 = 1 := by grind
    simp only [h, h1, h3, if_true]
    grind
  · have h1 : ¬ (u - 1 < 0) := by grind
    have h3 : max u 1 = u := by grind
    simp only [h, h1, h3, if_false]

theorem sumVerdict_eq (u : Rat) :
    sumVerdict true u = if CloseQ u then [] else if u < 1 then [.notUsedUp] else [.usedTooMuch] := by
  unfold sumVerdict
  simp only [if_true, closeQ_iff u]

/-- used up: `|u − 1| ≤ 2% · max u 1` -/
theorem sumVerdict_nil_iff (u : Rat) : sumVerdict true u = [] ↔ CloseQ u := by
  rw [sumVerdict_eq]
  by_cases h : CloseQ u
  · simp [h]
  · by_cases h1 : u < 1 <;> simp [h, h1]

theorem sumVerdict_notUsedUp_iff (u : Rat) : sumVerdict true u = [.notUsedUp] ↔ ¬ CloseQ u ∧ u < 1 := by
  rw [sumVerdict_eq]
  by_cases h : CloseQ u
  · simp [h]
  · by_cases h1 : u < 1 <;> simp [h, h1]

theorem sumVerdict_usedTooMuch_iff (u : Rat) : sumVerdict true u = [.usedTooMuch] ↔ ¬ CloseQ u ∧ u ≥ 1 := by
  rw [sumVerdict_eq]
  by_cases h : CloseQ u
  · simp [h]
  · by_cases h1 : u < 1
    · have : ¬ (1 ≤ u) := by grind
      simp [h, h1, this]
    · have : 1 ≤ u := by grind
      simp [h, h1, this]

/-- exactly one of the three verdicts -/
theorem sumVerdict_cases (u : Rat) :
    (sumVerdict true u = [] ∧ CloseQ u) ∨
    (sumVerdict true u = [.notUsedUp] ∧ ¬ CloseQ u ∧ u < 1) ∨
    (sumVerdict true u = [.usedTooMuch] ∧ ¬ CloseQ u ∧ u ≥ 1) := by
  by_cases h : CloseQ u
  · exact Or.inl ⟨(sumVerdict_nil_iff u).2 h, h⟩
  · by_cases h1 : u < 1
    · exact Or.inr (Or.inl ⟨(sumVerdict_notUsedUp_iff u).2 ⟨h, h1⟩, h, h1⟩)
    · have : u ≥ 1 := by grind
      exact Or.inr (Or.inr ⟨(sumVerdict_usedTooMuch_iff u).2 ⟨h, this⟩, h, this⟩)

/-- the three verdicts exclude one another -/
theorem sumVerdict_exclusive (u : Rat) :
    ¬ (CloseQ u ∧ ¬ CloseQ u) ∧ ¬ ((¬ CloseQ u ∧ u < 1) ∧ (¬ CloseQ u ∧ u ≥ 1)) := by
  refine ⟨fun h => h.2 h.1, ?_⟩
  rintro ⟨⟨_, h1⟩, ⟨_, h2⟩⟩
  grind

/-- the whole sum check, output by output -/
theorem sumChecks_go_closed : ∀ l : List (Option Quantity × List Amount),
    (∀ p ∈ l, ∀ tq, p.1 = some tq → tq.value.val ≠ 0) →
    sumChecks.go true l = some (l.flatMap fun p => outputLintsQ p.1 p.2)
  | [], _ => rfl
  | (total, amounts) :: rest, h => by
    obtain ⟨st, h1, h2, h3, h4⟩ := sumRefs_closed total (h (total, amounts) List.mem_cons_self) amounts
    have ih := sumChecks_go_closed rest (fun p hp => h p (List.mem_cons_of_mem _ hp))
    simp only [sumChecks.go, h1, ih, Option.map_some, List.flatMap_cons, outputLintsQ, h2, h3, h4]
    cases lintsQ total 0 amounts <;> simp

/-- C20.2 the exact linter in closed form: unused ingredients, then for every referenced output (in first
    occurrence order) its lints and verdict -/
theorem lintQ_closed (blocks : List Block) :
    lintQ blocks = some (unusedIngredients blocks ++ (lintGroups blocks).flatMap fun p => outputLintsQ p.1 p.2) := by
  show lintWith true blocks = _
  unfold lintWith
  rw [sumChecks_eq, sumChecks_go_closed]
  · rfl
  · intro p hp tq htq
    obtain ⟨s, hs⟩ := lintGroups_total hp
    exact totalQuantity_nonzero (hs ▸ htq)

-- ================================================================ C20.5 totality: no ZeroDivisionError
theorem lintQ_total (blocks : List Block) : (lintQ blocks).isSome := lintWith_isSome true blocks
theorem lintF_total (blocks : List Block) : (lintF blocks).isSome := lintWith_isSome false blocks
/-- the accumulation itself only fails on a zero total, in either layer -/
theorem sumRefs_total (spec : Bool) (total : Option Quantity) (h : ∀ tq, total = some tq → tq.value.val ≠ 0)
    (amounts : List Amount) (st : SumState) : (sumRefs spec total st amounts).isSome :=
  sumRefs_isSome spec total h amounts st

-- ================================================================ C20.3 scale invariance (exact layer)
/-- every tree of every block is as the constructor leaves it (normal strings) and has no float among
    its scalable numbers -/
def ExactBlocks (blocks : List Block) : Prop := ∀ b ∈ blocks, ∀ t ∈ b, C03.TreeNormal t ∧ C03.Exact t

theorem exactBlocks_good {blocks : List Block} (h : ExactBlocks blocks) : Tree.GoodList blocks.flatten := by
  rw [Tree.goodList_iff]
  intro t ht
  obtain ⟨b, hb, htb⟩ := List.mem_flatten.1 ht
  exact Tree.good_of t (h b hb t htb).1 (h b hb t htb).2

/-- the references met outside references are the scaled ones, in the same order (any factor) -/
theorem topRefs_scale (k : Num) (t : Tree) : Tree.topRefs (Tree.scale k t) = (Tree.topRefs t).map (Tree.scale k) :=
  Tree.topRefs_scale k t
/-- likewise the implicit single-ingredient sub recipes (any factor) -/
theorem implicitSubs_scale (k : Num) (t : Tree) :
    Tree.implicitSubs (Tree.scale k t) = (Tree.implicitSubs t).map (Tree.scale k) :=
  Tree.implicitSubs_scale k t

/-- Python `==` between exact normal trees is unchanged by scaling both by a nonzero exact factor -/
theorem beq_scale (k : Num) (hk : k.kind ≠ .flt) (hk0 : k.val ≠ 0) (a b : Tree)
    (ha : C03.TreeNormal a ∧ C03.Exact a) (hb : C03.TreeNormal b ∧ C03.Exact b) :
    Tree.beq (Tree.scale k a) (Tree.scale k b) = Tree.beq a b :=
  Tree.beq_scale hk hk0 a b (Tree.good_of a ha.1 ha.2) (Tree.good_of b hb.1 hb.2)

/-- the total of the scaled sub recipe is the scaled total -/
theorem totalQuantity_scale (k : Num) (hk : k.kind ≠ .flt) (hk0 : k.val ≠ 0) (s : Tree)
    (hn : C03.TreeNormal s) (he : C03.Exact s) :
    totalQuantity (Tree.scale k s) = (totalQuantity s).map (Quantity.scale k) :=
  totalQuantity_scale' hk hk0 (Tree.good_of s hn he)

/-- the per-output accumulation does not change when the total and every quantity use are multiplied by `k`:
    the same state (proportion, problem flag, lints) or the same failure -/
theorem sumRefs_scale (k : Num) (hk : k.kind ≠ .flt) (hk0 : k.val ≠ 0) (total : Option Quantity)
    (ht : ∀ tq, total = some tq → tq.value.kind ≠ .flt) (amounts : List Amount)
    (ha : ∀ q, Amount.quantity q ∈ amounts → q.value.kind ≠ .flt) (st : SumState) :
    sumRefs true (total.map (Quantity.scale k)) st (amounts.map (Amount.scale k)) = sumRefs true total st amounts := by
  apply sumRefs_scale' hk hk0 total ht
  intro a h
  cases a with
  | quantity q => exact ha q h
  | proportion v p w s => trivial

theorem unusedIngredients_scale (k : Num) (hk : k.kind ≠ .flt) (hk0 : k.val ≠ 0) (blocks : List Block)
    (h : ExactBlocks blocks) : unusedIngredients (scaleBlocks k blocks) = unusedIngredients blocks :=
  RG.unusedIngredients_scale hk hk0 blocks (exactBlocks_good h)

/-- the invariance holds for every nonzero exact factor -/
theorem lintQ_scale_invariant_nonzero (k : Num) (hk : k.kind ≠ .flt) (hk0 : k.val ≠ 0) (blocks : List Block)
    (h : ExactBlocks blocks) : lintQ (scaleBlocks k blocks) = lintQ blocks := by
  show lintWith true _ = lintWith true _
  unfold lintWith
  rw [sumChecks_scale hk hk0 blocks (exactBlocks_good h), unusedIngredients_scale k hk hk0 blocks h]

/-- C20.3 over exact numbers the lints do not depend on the scale of the recipe -/
theorem lintQ_scale_invariant (k : Num) (hk : k.kind ≠ .flt) (hpos : 0 < k.val) (blocks : List Block)
    (h : ExactBlocks blocks) : lintQ (scaleBlocks k blocks) = lintQ blocks :=
  lintQ_scale_invariant_nonzero k hk (by grind) blocks h

-- ================================================================ C20.1 unused ingredients
/-- `Reach t u`: `u` is met when walking `t` without entering a reference -/
inductive Reach : Tree → Tree → Prop
  | refl (t : Tree) : Reach t t
  | step {d : SVS} {i : List Tree} {t u : Tree} : t ∈ i → Reach t u → Reach (.step d i) u
  | sub {b : Tree} {ns : List SVS} {sh : Bool} {u : Tree} : Reach b u → Reach (.sub b ns sh) u

/-- an implicit single-ingredient sub recipe: one output whose name is not shown -/
def IsImplicit : Tree → Prop
  | .sub _ ns sh => ns.length = 1 ∧ sh = false
  | _ => False

/-- met when walking the roots of the blocks without entering a reference -/
def Visible (blocks : List Block) (t : Tree) : Prop := ∃ b ∈ blocks, ∃ root ∈ b, Reach root t
/-- `==` to the target of some visible reference -/
def Referenced (blocks : List Block) (s : Tree) : Prop :=
  ∃ tgt i a, Visible blocks (.reference tgt i a) ∧ Tree.beq s tgt = true
def Unused (blocks : List Block) (s : Tree) : Prop := Visible blocks s ∧ IsImplicit s ∧ ¬ Referenced blocks s

/-- one representative of every `==`-class of unused implicit ingredients -/
structure Representatives (blocks : List Block) (reps : List Tree) : Prop where
  unused : ∀ s ∈ reps, Unused blocks s
  distinct : reps.Pairwise fun a b => Tree.beq a b = false
  complete : ∀ s, Unused blocks s → ∃ r ∈ reps, Tree.beq r s = true

/-- `==` on trees is an equivalence, so "number of distinct" is meaningful -/
theorem beq_equivalence :
    (∀ a, Tree.beq a a = true) ∧ (∀ a b, Tree.beq a b = true → Tree.beq b a = true) ∧
    (∀ a b c, Tree.beq a b = true → Tree.beq b c = true → Tree.beq a c = true) :=
  ⟨Tree.beq_refl, fun _ _ => Tree.beq_symm, fun _ _ _ => Tree.beq_trans⟩

mutual
theorem implicitSubs_reach : ∀ (t s : Tree), s ∈ Tree.implicitSubs t → Reach t s ∧ IsImplicit s
  | .ingredient d q, s, h => by simp [Tree.implicitSubs] at h
  | .step d i, s, h => by
    simp only [Tree.implicitSubs] at h
    obtain ⟨t, ht, hr, hi⟩ := implicitSubsList_reach i s h
    exact ⟨Reach.step ht hr, hi⟩
  | .reference s' n a, s, h => by simp [Tree.implicitSubs] at h
  | .sub b ns sh, s, h => by
    simp only [Tree.implicitSubs, List.mem_append] at h
    rcases h with h | h
    · split at h
      · rename_i hc
        simp only [List.mem_singleton] at h
        subst h
        refine ⟨Reach.refl _, ?_⟩
        simpa [IsImplicit] using hc
      · simp at h
    · obtain ⟨hr, hi⟩ := implicitSubs_reach b s h
      exact ⟨Reach.sub hr, hi⟩
theorem implicitSubsList_reach : ∀ (ts : List Tree) (s : Tree), s ∈ Tree.implicitSubsList ts →
    ∃ t ∈ ts, Reach t s ∧ IsImplicit s
  | [], s, h => by simp [Tree.implicitSubsList] at h
  | t :: ts, s, h => by
    simp only [Tree.implicitSubsList, List.mem_append] at h
    rcases h with h | h
    · exact ⟨t, List.mem_cons_self, implicitSubs_reach t s h⟩
    · obtain ⟨t', ht', h'⟩ := implicitSubsList_reach ts s h
      exact ⟨t', List.mem_cons_of_mem _ ht', h'⟩
end

theorem mem_implicitSubsList_of {s : Tree} : ∀ {ts : List Tree} {t : Tree}, t ∈ ts → s ∈ Tree.implicitSubs t →
    s ∈ Tree.implicitSubsList ts
  | _ :: ts, t, ht, hs => by
    simp only [Tree.implicitSubsList, List.mem_append]
    rcases List.mem_cons.1 ht with rfl | ht
    · exact Or.inl hs
    · exact Or.inr (mem_implicitSubsList_of ht hs)

theorem reach_implicitSubs {t s : Tree} (h : Reach t s) (hi : IsImplicit s) : s ∈ Tree.implicitSubs t := by
  induction h with
  | refl t =>
    cases t with
    | sub b ns sh =>
      simp only [IsImplicit] at hi
      simp [Tree.implicitSubs, hi.1, hi.2]
    | _ => simp [IsImplicit] at hi
  | step ht _ ih =>
    simp only [Tree.implicitSubs]
    exact mem_implicitSubsList_of ht (ih hi)
  | sub _ ih =>
    simp only [Tree.implicitSubs, List.mem_append]
    exact Or.inr (ih hi)

/-- the model's walk collects exactly the visible implicit ingredients -/
theorem mem_implicitSubsList_iff (blocks : List Block) (s : Tree) :
    s ∈ Tree.implicitSubsList blocks.flatten ↔ Visible blocks s ∧ IsImplicit s := by
  constructor
  · intro h
    obtain ⟨t, ht, hr, hi⟩ := implicitSubsList_reach _ s h
    obtain ⟨b, hb, htb⟩ := List.mem_flatten.1 ht
    exact ⟨⟨b, hb, t, htb, hr⟩, hi⟩
  · rintro ⟨⟨b, hb, t, htb, hr⟩, hi⟩
    exact mem_implicitSubsList_of (List.mem_flatten.2 ⟨b, hb, htb⟩) (reach_implicitSubs hr hi)

mutual
theorem topRefs_reach : ∀ (t r : Tree), r ∈ Tree.topRefs t → Reach t r ∧ ∃ s i a, r = .reference s i a
  | .ingredient d q, r, h => by simp [Tree.topRefs] at h
  | .step d i, r, h => by
    simp only [Tree.topRefs] at h
    obtain ⟨t, ht, hr, hi⟩ := topRefsList_reach i r h
    exact ⟨Reach.step ht hr, hi⟩
  | .reference s n a, r, h => by
    simp only [Tree.topRefs, List.mem_singleton] at h
    subst h
    exact ⟨Reach.refl _, s, n, a, rfl⟩
  | .sub b ns sh, r, h => by
    simp only [Tree.topRefs] at h
    obtain ⟨hr, hi⟩ := topRefs_reach b r h
    exact ⟨Reach.sub hr, hi⟩
theorem topRefsList_reach : ∀ (ts : List Tree) (r : Tree), r ∈ Tree.topRefsList ts →
    ∃ t ∈ ts, Reach t r ∧ ∃ s i a, r = .reference s i a
  | [], r, h => by simp [Tree.topRefsList] at h
  | t :: ts, r, h => by
    simp only [Tree.topRefsList, List.mem_append] at h
    rcases h with h | h
    · exact ⟨t, List.mem_cons_self, topRefs_reach t r h⟩
    · obtain ⟨t', ht', h'⟩ := topRefsList_reach ts r h
      exact ⟨t', List.mem_cons_of_mem _ ht', h'⟩
end

theorem mem_topRefsList_of {r : Tree} : ∀ {ts : List Tree} {t : Tree}, t ∈ ts → r ∈ Tree.topRefs t →
    r ∈ Tree.topRefsList ts
  | _ :: ts, t, ht, hs => by
    simp only [Tree.topRefsList, List.mem_append]
    rcases List.mem_cons.1 ht with rfl | ht
    · exact Or.inl hs
    · exact Or.inr (mem_topRefsList_of ht hs)

theorem reach_topRefs {t : Tree} {s : Tree} {i : Nat} {a : Amount} (h : Reach t (.reference s i a)) :
    .reference s i a ∈ Tree.topRefs t := by
  generalize hr : Tree.reference s i a = r at h
  induction h with
  | refl t => subst hr; simp [Tree.topRefs]
  | step ht _ ih =>
    simp only [Tree.topRefs]
    exact mem_topRefsList_of ht (ih hr)
  | sub _ ih =>
    simp only [Tree.topRefs]
    exact ih hr

/-- the model's walk collects exactly the visible references -/
theorem mem_topRefsList_iff (blocks : List Block) (r : Tree) :
    r ∈ Tree.topRefsList blocks.flatten ↔ Visible blocks r ∧ ∃ s i a, r = .reference s i a := by
  constructor
  · intro h
    obtain ⟨t, ht, hr, hi⟩ := topRefsList_reach _ r h
    obtain ⟨b, hb, htb⟩ := List.mem_flatten.1 ht
    exact ⟨⟨b, hb, t, htb, hr⟩, hi⟩
  · rintro ⟨⟨b, hb, t, htb, hr⟩, s, i, a, rfl⟩
    exact mem_topRefsList_of (List.mem_flatten.2 ⟨b, hb, htb⟩) (reach_topRefs hr)

theorem referenced_iff (blocks : List Block) (s : Tree) :
    (∀ t ∈ (Tree.topRefsList blocks.flatten).filterMap (fun r => (refSub r).map (·.1)), Tree.beq s t = false) ↔
      ¬ Referenced blocks s := by
  constructor
  · rintro h ⟨tgt, i, a, hv, hb⟩
    have := h tgt (List.mem_filterMap.2 ⟨.reference tgt i a,
      (mem_topRefsList_iff blocks _).2 ⟨hv, tgt, i, a, rfl⟩, rfl⟩)
    rw [hb] at this
    cases this
  · intro h t ht
    obtain ⟨r, hr, hrt⟩ := List.mem_filterMap.1 ht
    obtain ⟨hv, s', i, a, rfl⟩ := (mem_topRefsList_iff blocks r).1 hr
    simp only [refSub, Option.map_some, Option.some.injEq] at hrt
    subst hrt
    cases hb : Tree.beq s s' with
    | false => rfl
    | true => exact absurd ⟨s', i, a, hv, hb⟩ h

/-- C20.1 the linter reports one `unusedIngredient` per `==`-class of visible implicit single-ingredient
    sub recipes that no visible reference targets: as many as any system of representatives has -/
theorem unused_iff (blocks : List Block) (reps : List Tree) (h : Representatives blocks reps) :
    unusedIngredients blocks = List.replicate reps.length .unusedIngredient := by
  rw [unusedIngredients_eq]
  congr 1
  apply unused_length_eq
  · intro s hs
    obtain ⟨hv, hi, hr⟩ := h.unused s hs
    exact ⟨(mem_implicitSubsList_iff blocks s).2 ⟨hv, hi⟩, (referenced_iff blocks s).2 hr⟩
  · exact h.distinct
  · intro s hs hr
    obtain ⟨hv, hi⟩ := (mem_implicitSubsList_iff blocks s).1 hs
    exact h.complete s ⟨hv, hi, (referenced_iff blocks s).1 hr⟩

/-- a system of representatives always exists (the one the model picks: first occurrences) -/
theorem representatives_exist (blocks : List Block) : ∃ reps, Representatives blocks reps := by
  obtain ⟨h1, h2, h3⟩ := unused_model_reps (Tree.implicitSubsList blocks.flatten)
    ((Tree.topRefsList blocks.flatten).filterMap fun r => (refSub r).map (·.1))
  refine ⟨_, ⟨?_, h2, ?_⟩⟩
  · intro s hs
    obtain ⟨hs1, hs2⟩ := h1 s hs
    obtain ⟨hv, hi⟩ := (mem_implicitSubsList_iff blocks s).1 hs1
    exact ⟨hv, hi, (referenced_iff blocks s).1 hs2⟩
  · rintro s ⟨hv, hi, hr⟩
    exact h3 s ((mem_implicitSubsList_iff blocks s).2 ⟨hv, hi⟩) ((referenced_iff blocks s).2 hr)

/-- something is reported iff some implicit ingredient is unused -/
theorem unused_mem_iff (blocks : List Block) :
    .unusedIngredient ∈ unusedIngredients blocks ↔ ∃ s, Unused blocks s := by
  obtain ⟨reps, h⟩ := representatives_exist blocks
  rw [unused_iff blocks reps h]
  constructor
  · intro hm
    cases reps with
    | nil => simp at hm
    | cons r _ => exact ⟨r, h.unused r List.mem_cons_self⟩
  · rintro ⟨s, hs⟩
    obtain ⟨r, hr, _⟩ := h.complete s hs
    cases reps with
    | nil => simp at hr
    | cons r _ => simp

/-- both layers report the same unused ingredients, first, and nothing else of that kind:
    the number of `unusedIngredient` entries of the whole result is the number of classes -/
theorem unused_count (spec : Bool) (blocks : List Block) (reps : List Tree) (h : Representatives blocks reps)
    (out : List LintKind) (ho : lintWith spec blocks = some out) :
    (∃ rest, out = unusedIngredients blocks ++ rest ∧ LintKind.unusedIngredient ∉ rest) ∧
    out.count .unusedIngredient = reps.length := by
  unfold lintWith at ho
  simp only [Option.map_eq_some_iff] at ho
  obtain ⟨rest, hrest, rfl⟩ := ho
  have hn := sumChecks_go_no_unused spec _ rest (by rw [← sumChecks_eq]; exact hrest)
  refine ⟨⟨rest, rfl, hn⟩, ?_⟩
  rw [List.count_append, List.count_eq_zero.2 hn, unused_iff blocks reps h, List.count_replicate_self]
  rfl

/-- `unusedIngredients` is computed without any arithmetic: the same list prefixes `lintF` and `lintQ` -/
theorem unused_same_in_both_layers (blocks : List Block) :
    ∃ restF restQ, lintF blocks = some (unusedIngredients blocks ++ restF) ∧
      lintQ blocks = some (unusedIngredients blocks ++ restQ) ∧
      LintKind.unusedIngredient ∉ restF ∧ LintKind.unusedIngredient ∉ restQ := by
  obtain ⟨outF, hF⟩ := Option.isSome_iff_exists.1 (lintF_total blocks)
  obtain ⟨outQ, hQ⟩ := Option.isSome_iff_exists.1 (lintQ_total blocks)
  obtain ⟨reps, h⟩ := representatives_exist blocks
  obtain ⟨⟨rF, hrF, hnF⟩, _⟩ := unused_count false blocks reps h outF hF
  obtain ⟨⟨rQ, hrQ, hnQ⟩, _⟩ := unused_count true blocks reps h outQ hQ
  exact ⟨rF, rQ, hrF ▸ hF, hrQ ▸ hQ, hnF, hnQ⟩

-- ================================================================ recorded finding: the 2 % threshold in binary64
def wX : Str := "x".toList
def wG : Str := "g".toList
/-- `20.0 g x` as an implicit single-ingredient sub recipe -/
def wSub : Tree :=
  .sub (.ingredient [.text wX] (some ⟨⟨20, .flt⟩, some wG, " ".toList, []⟩)) [[.text wX]] false
/-- `9.8 g` (the double nearest to 9.8) -/
def wUse : Amount := .quantity ⟨⟨toDouble (mkRat 98 10), .flt⟩, some wG, " ".toList, []⟩
/-- `20.0 g x`, then `mix(9.8 g x, 9.8 g x)` -/
def wBlocks : List Block :=
  [[wSub, .step [.text "mix".toList] [.reference wSub 0 wUse, .reference wSub 0 wUse]]]

/-- in binary64 the verdict flips at the threshold when the recipe is scaled by 10 (0.98 is "close" before,
    "not used up" after), while the exact layer gives the same answer for both -/
theorem lintF_boundary_flip :
    lintF wBlocks = some [] ∧
    lintF (scaleBlocks ⟨10, .int⟩ wBlocks) = some [.notUsedUp] ∧
    lintQ wBlocks = lintQ (scaleBlocks ⟨10, .int⟩ wBlocks) := by
  decide +kernel

-- ================================================================ non-vacuity examples
/-- a total of `500 g` -/
def exTotal : Quantity := ⟨⟨500, .int⟩, some wG, " ".toList, []⟩
def exQ (v : Rat) (unit : Option Str) : Amount := .quantity ⟨⟨v, .frac⟩, unit, " ".toList, []⟩
def exHalf : Amount := .proportion (some ⟨1 / 2, .frac⟩) false none []
def exRest : Amount := .proportion none false none []

-- the rows of the table on concrete values
example : factorQ ⟨⟨1, .int⟩, some "kg".toList, [], []⟩ exTotal = some 1000 := by decide +kernel
example : factorQ ⟨⟨1, .int⟩, some "ml".toList, [], []⟩ exTotal = none := by decide +kernel
example : factorQ ⟨⟨1, .int⟩, none, [], []⟩ exTotal = none := by decide +kernel
example : usedQ (some exTotal) 0 [exQ 200 (some wG), exQ (1 / 4) (some "kg".toList)] = 9 / 10 := by decide +kernel
example : usedQ (some exTotal) 0 [exQ 200 (some wG), exQ (1 / 4) (some "kg".toList), exRest] = 1 := by
  decide +kernel
example : lintsQ (some exTotal) 0 [exHalf, exHalf, exRest] = [.nonPositiveRemainder] := by decide +kernel
example : lintsQ none 0 [exQ 1 none, exHalf] = [.quantityUnknown] := by decide +kernel
example : lintsQ (some exTotal) 0 [exQ 1 (some "ml".toList), exQ 1 none] = [.incompatibleUnits, .incompatibleUnits] := by
  decide +kernel
example : outputLintsQ (some exTotal) [exQ 200 (some wG), exHalf] = [.notUsedUp] := by decide +kernel
example : outputLintsQ (some exTotal) [exQ 490 (some wG)] = [] := by decide +kernel
example : outputLintsQ (some exTotal) [exQ 600 (some wG)] = [.usedTooMuch] := by decide +kernel
example := sumRefs_closed (some exTotal) (by intro tq h; cases h; decide +kernel) [exQ 200 (some wG), exRest]
example := usedQ_sum (some exTotal) [exQ 200 (some wG), exHalf] 0 (by decide)
example : CloseQ (49 / 50) ∧ ¬ CloseQ (97 / 100) ∧ CloseQ (51 / 50) ∧ ¬ CloseQ (103 / 100) := by
  simp only [closeQ_iff]
  decide +kernel
example : sumVerdict true (49 / 50) = [] ∧ sumVerdict true (1 / 2) = [.notUsedUp] ∧
    sumVerdict true 2 = [.usedTooMuch] := by decide +kernel

/-- `500 g flour` (implicit), an unused `1 egg`, and `mix(200 g flour, remainder of flour)` -/
def exFlour : Tree :=
  .sub (.ingredient [.text "flour".toList] (some exTotal)) [[.text "flour".toList]] false
def exEgg : Tree :=
  .sub (.ingredient [.text "egg".toList] (some ⟨⟨1, .int⟩, none, [], []⟩)) [[.text "egg".toList]] false
def exBlocks : List Block :=
  [[exFlour, exEgg], [.step [.text "mix".toList]
    [.reference exFlour 0 (.quantity ⟨⟨200, .int⟩, some wG, " ".toList, []⟩), .reference exFlour 0 exRest]]]

example : lintQ exBlocks = some [.unusedIngredient] ∧ lintF exBlocks = some [.unusedIngredient] := by
  decide +kernel
example : (lintQ exBlocks).isSome ∧ (lintF exBlocks).isSome := ⟨lintQ_total _, lintF_total _⟩
/-- a zero total is "unknown", not a division by zero -/
example : lintF [[.sub (.ingredient [.text wX] (some ⟨⟨0, .int⟩, some wG, [], []⟩)) [[.text wX]] false,
    .reference (.sub (.ingredient [.text wX] (some ⟨⟨0, .int⟩, some wG, [], []⟩)) [[.text wX]] false) 0
      (.quantity ⟨⟨1, .int⟩, some wG, [], []⟩)]] = some [.quantityUnknown] := by decide +kernel

theorem exBlocks_exact : ExactBlocks exBlocks := by
  have hs : ∀ t : Str, t ≠ [] → C03.SvsNormal [.text t] := fun t ht =>
    (Svs.normal_iff _).1 ⟨ht, rfl, trivial⟩
  have h1 := hs "flour".toList (by decide)
  have h2 := hs "egg".toList (by decide)
  have h3 := hs "mix".toList (by decide)
  have he : ∀ b ∈ exBlocks, ∀ t ∈ b, ∀ n ∈ C03.nums t, n.kind ≠ .flt := by decide +kernel
  intro b hb t ht
  refine ⟨?_, he b hb t ht⟩
  simp only [exBlocks, List.mem_cons, List.not_mem_nil, or_false] at hb
  rcases hb with rfl | rfl
  · simp only [List.mem_cons, List.not_mem_nil, or_false] at ht
    rcases ht with rfl | rfl
    · simpa [exFlour, C03.TreeNormal] using h1
    · simpa [exEgg, C03.TreeNormal] using h2
  · simp only [List.mem_cons, List.not_mem_nil, or_false] at ht
    subst ht
    simpa [exFlour, C03.TreeNormal, C03.TreeNormalList] using ⟨h3, h1⟩

example : lintQ (scaleBlocks ⟨7 / 3, .frac⟩ exBlocks) = lintQ exBlocks :=
  lintQ_scale_invariant ⟨7 / 3, .frac⟩ (by decide) (by decide +kernel) exBlocks exBlocks_exact
example : lintQ (scaleBlocks ⟨7 / 3, .frac⟩ exBlocks) = some [.unusedIngredient] := by decide +kernel
example := sumRefs_scale ⟨3, .int⟩ (by decide) (by decide +kernel) (some exTotal) (by intro tq h; cases h; decide)
  [exQ 200 (some wG), exRest]
  (by intro q h; simp only [exQ, exRest, List.mem_cons, List.not_mem_nil, or_false, Amount.quantity.injEq,
        reduceCtorEq] at h; subst h; decide) {}
example := totalQuantity_scale ⟨3, .int⟩ (by decide) (by decide +kernel) exFlour
  (exBlocks_exact [exFlour, exEgg] (by simp [exBlocks]) exFlour (by simp)).1
  (exBlocks_exact [exFlour, exEgg] (by simp [exBlocks]) exFlour (by simp)).2
/-- normality is needed: two ingredients whose un-normalised names differ are merged into one by scaling -/
example :
    lintQ [[.sub (.ingredient [.text ['a'], .text ['b']] none) [[.text wX]] false,
            .sub (.ingredient [.text ['a', 'b']] none) [[.text wX]] false]] =
      some [.unusedIngredient, .unusedIngredient] ∧
    lintQ (scaleBlocks ⟨1, .int⟩
          [[.sub (.ingredient [.text ['a'], .text ['b']] none) [[.text wX]] false,
            .sub (.ingredient [.text ['a', 'b']] none) [[.text wX]] false]]) =
      some [.unusedIngredient] := by decide +kernel

/-- the egg is the one unused implicit ingredient of `exBlocks` -/
theorem exBlocks_reps : Representatives exBlocks [exEgg] := by
  obtain ⟨reps, h⟩ := representatives_exist exBlocks
  have hl := unused_iff exBlocks reps h
  have hc : unusedIngredients exBlocks = [.unusedIngredient] := by decide +kernel
  rw [hc] at hl
  have hlen : reps.length = 1 := by
    have := congrArg List.length hl
    simpa using this.symm
  match reps, hlen with
  | [r], _ =>
    have hr := h.unused r List.mem_cons_self
    have hmem := (mem_implicitSubsList_iff exBlocks r).2 ⟨hr.1, hr.2.1⟩
    have hI : Tree.implicitSubsList exBlocks.flatten = [exFlour, exEgg] := by
      simp [exBlocks, exFlour, exEgg, Tree.implicitSubsList, Tree.implicitSubs]
    rw [hI] at hmem
    simp only [List.mem_cons, List.not_mem_nil, or_false] at hmem
    rcases hmem with rfl | rfl
    · exfalso
      apply hr.2.2
      refine ⟨exFlour, 0, exRest, ⟨_, List.mem_cons_of_mem _ List.mem_cons_self, _, List.mem_cons_self,
        Reach.step (List.mem_cons_of_mem _ List.mem_cons_self) (Reach.refl _)⟩, Tree.beq_refl _⟩
    · exact h
example : unusedIngredients exBlocks = List.replicate 1 .unusedIngredient :=
  unused_iff exBlocks [exEgg] exBlocks_reps
example : ∃ s, Unused exBlocks s := (unused_mem_iff exBlocks).1 (by decide +kernel)

end RG.C20
