import RecipeGrid.Lemmas.FoldSpec
/-! C01.4 — the inlining pass of `compile` refines the documented *by-name* folding.

    Layout (as in `Props/C01.lean`, the specification comes first, then the proofs that need its definitions, then the
    property theorems and kernel-checked examples):

    * **specification** — `FTree`/`FStmt` (by-name trees that can hold an inlined titled sub recipe; statements with
      their id, block, `:=` flag and a `live` flag), `lift` (the elaborated program of C01 with the `:=` flags of the
      AST), `liveRefs`/`refsTo` (references by name of the remaining program), `Spec.isWhole`, `Spec.canFold` (the four
      documented conditions), `Spec.foldStmt`, `Spec.foldAll` (every statement in definition order), `embedF` (the
      compiler's by-copy representation of the remaining statements) and `specCompile`.  No copies, no table.
    * **proofs** — `embed_inline` (the substitution of the pass IS inlining by name), `liveRefs_fold` (conservation of
      references), the abstract invariant `WFP`, the abstraction relation `Abs` between the concrete loop state
      (`blocks`, `outs`) and the abstract program, `step_single` (one `foldStep` = one `Spec.foldStmt`), `loop_sim`.
    * **theorems** — `compile_refines_spec`, `compile_eq_specCompile`, `folded_iff`, `multi_output_not_folded`,
      `cross_block_not_folded`, `foldStmt_folded`; examples.
    Model-only helper lemmas are in `Lemmas/FoldSpec.lean`. -/
namespace RG.C01

-- ================================================================ the by-name specification of folding

/-- a by-name tree in which definitions may have been inlined: `sub` is an inlined definition that keeps its
    title (written with `:=`) -/
inductive FTree where
  | ingredient (d : SVS) (q : Option Quantity)
  | step (d : SVS) (inputs : List FTree)
  /-- a reference BY NAME to output `idx` of statement `sid` -/
  | nref (sid idx : Nat) (amount : Amount)
  /-- an inlined named sub recipe -/
  | sub (body : FTree) (names : List SVS) (showNames : Bool)
deriving Inhabited

/-- a statement of the program being folded -/
structure FStmt where
  /-- its number: statement ids never change while folding -/
  sid : Nat
  block : Nat
  tree : FTree
  names : List SVS
  showNames : Bool
  /-- written with `:=` -/
  named : Bool
  /-- `false` once the statement has been inlined into its only user (it is deleted from the recipe) -/
  live : Bool

mutual
def liftTree : NTree → FTree
  | .ingredient d q => .ingredient d q
  | .step d inputs => .step d (liftTrees inputs)
  | .nref sid idx a => .nref sid idx a
def liftTrees : List NTree → List FTree
  | [] => []
  | t :: ts => liftTree t :: liftTrees ts
end

/-- was statement `k` of the program (in source order) written with `:=` -/
def namedFlags (asts : List (List AStmt)) : List Bool := (numbered 0 asts).map (·.2.named)

/-- statement `k` of the elaborated program, with the `:=` flags `nm` -/
def liftStmt (nm : List Bool) (k : Nat) (s : NStmt) : FStmt :=
  { sid := k, block := s.block, tree := liftTree s.tree, names := s.names, showNames := s.showNames,
    named := nm[k]?.getD false, live := true }

/-- the statements `ns`, numbered from `k` -/
def liftFrom (nm : List Bool) : Nat → List NStmt → List FStmt
  | _, [] => []
  | k, s :: ss => liftStmt nm k s :: liftFrom nm (k + 1) ss

/-- the elaborated program `ns` of the description `asts`, before folding -/
def lift (asts : List (List AStmt)) (ns : List NStmt) : List FStmt := liftFrom (namedFlags asts) 0 ns

mutual
/-- the reference leaves of a tree in source order: (statement id, output index, amount) -/
def FTree.refs : FTree → List (Nat × Nat × Amount)
  | .ingredient .. => []
  | .step _ inputs => FTree.refsList inputs
  | .nref sid idx a => [(sid, idx, a)]
  | .sub b _ _ => b.refs
def FTree.refsList : List FTree → List (Nat × Nat × Amount)
  | [] => []
  | t :: ts => t.refs ++ FTree.refsList ts
end

/-- every reference of the remaining program in source order, with the block of the referencing statement -/
def liveRefs (P : List FStmt) : List (Nat × Nat × Amount × Nat) :=
  P.flatMap fun u => if u.live then u.tree.refs.map fun r => (r.1, r.2.1, r.2.2, u.block) else []

/-- the references of the remaining program to output `idx` of statement `sid`: the amount taken and the block of the
    referencing statement -/
def refsTo (P : List FStmt) (sid idx : Nat) : List (Amount × Nat) :=
  ((liveRefs P).filter fun r => r.1 == sid && r.2.1 == idx).map fun r => (r.2.2.1, r.2.2.2)

/-- the quantity of the single ingredient of a chain of single-input steps -/
def FTree.inferQuantity : FTree → Option Quantity
  | .ingredient _ q => q
  | .step _ [i] => i.inferQuantity
  | .sub b [_] _ => b.inferQuantity
  | _ => none

/-- the amount is all of what the tree `t` makes: a remainder (no value), the proportion 1, or a quantity equal to
    the inferred quantity of `t` -/
def Spec.isWhole (t : FTree) : Amount → Bool
  | .proportion none _ _ _ => true
  | .proportion (some v) _ _ _ => v.val == 1
  | .quantity q =>
    match t.inferQuantity with
    | some iq => q.hasEqualValueTo iq
    | none => false

/-- statement `st` of the remaining program `P` is folded iff it defines exactly one output, the whole program contains
    exactly one reference to it, that reference is in a statement of the same block and takes the whole amount -/
def Spec.canFold (P : List FStmt) (st : FStmt) : Bool :=
  st.names.length == 1 &&
  match refsTo P st.sid 0 with
  | [(a, b)] => b == st.block && Spec.isWhole st.tree a
  | _ => false

mutual
/-- replace the references to statement `sid` by the tree `x` -/
def FTree.inline (sid : Nat) (x : FTree) : FTree → FTree
  | .ingredient d q => .ingredient d q
  | .step d inputs => .step d (FTree.inlineList sid x inputs)
  | .nref s i a => if s == sid then x else .nref s i a
  | .sub b ns sh => .sub (FTree.inline sid x b) ns sh
def FTree.inlineList (sid : Nat) (x : FTree) : List FTree → List FTree
  | [] => []
  | t :: ts => FTree.inline sid x t :: FTree.inlineList sid x ts
end

/-- what is put in place of the reference: the statement's tree, as a named sub recipe if it was written with `:=` -/
def FStmt.inlined (st : FStmt) : FTree := if st.named then .sub st.tree st.names st.showNames else st.tree

/-- fold statement `sid` if it can be folded: its reference is replaced by its (already folded) tree and the statement
    is deleted -/
def Spec.foldStmt (P : List FStmt) (sid : Nat) : List FStmt :=
  match P[sid]? with
  | some st =>
    if Spec.canFold P st then
      P.map fun u => { u with tree := FTree.inline sid st.inlined u.tree, live := u.live && u.sid != sid }
    else P
  | none => P

/-- the documented folding: every statement in definition order -/
def Spec.foldAll (P : List FStmt) : List FStmt := (List.range P.length).foldl Spec.foldStmt P

-- ---------------------------------------------------------------- from by-name to by-copy
mutual
def embedFTree (roots : List Tree) : FTree → Tree
  | .ingredient d q => .ingredient d q
  | .step d inputs => .step d (embedFTrees roots inputs)
  | .nref sid idx a => .reference (roots[sid]?.getD default) idx a
  | .sub b ns sh => .sub (embedFTree roots b) ns sh
def embedFTrees (roots : List Tree) : List FTree → List Tree
  | [] => []
  | t :: ts => embedFTree roots t :: embedFTrees roots ts
end

def embedFStmt (roots : List Tree) (s : FStmt) : Tree :=
  if s.names.isEmpty then embedFTree roots s.tree else .sub (embedFTree roots s.tree) s.names s.showNames

/-- the root tree of every statement, built in order -/
def rootsOfF (P : List FStmt) : List Tree := P.foldl (fun roots s => roots ++ [embedFStmt roots s]) []

/-- the compiler's representation: per block, the root trees of the remaining statements -/
def embedF (nblocks : Nat) (P : List FStmt) : List (List Tree) :=
  (List.range nblocks).map fun b => ((P.zip (rootsOfF P)).filter (fun p => p.1.live && p.1.block == b)).map (·.2)

/-- the by-name meaning of a list of source texts: the first block that does not parse, else the error of the by-name
    elaboration (C01.3), else the by-name program after the documented folding, with copies embedded -/
def specCompile (srcs : List Str) : CompileResult :=
  match parseAll 0 srcs with
  | .error e => e
  | .ok asts =>
    match Spec.blocks asts with
    | .error e => e.toCompile
    | .ok ns => .ok (embedF srcs.length (Spec.foldAll (lift asts ns)))

-- ================================================================ proofs: the lifted program is the elaborated program

theorem liftFrom_length (nm : List Bool) : ∀ (ns : List NStmt) (k : Nat), (liftFrom nm k ns).length = ns.length
  | [], _ => rfl
  | s :: ss, k => by simp [liftFrom, liftFrom_length nm ss (k + 1)]

theorem liftFrom_getElem? (nm : List Bool) : ∀ (ns : List NStmt) (k j : Nat),
    (liftFrom nm k ns)[j]? = ns[j]?.map (liftStmt nm (k + j))
  | [], _, _ => by simp [liftFrom]
  | s :: ss, k, 0 => by simp [liftFrom]
  | s :: ss, k, j + 1 => by
    simp only [liftFrom, List.getElem?_cons_succ, liftFrom_getElem? nm ss (k + 1) j]
    have : k + 1 + j = k + (j + 1) := by omega
    rw [this]

mutual
theorem embedFTree_lift (roots : List Tree) : ∀ t : NTree, embedFTree roots (liftTree t) = embedTree roots t
  | .ingredient .. => rfl
  | .step d inputs => by simp only [liftTree, embedFTree, embedTree, embedFTrees_lift roots inputs]
  | .nref .. => rfl
theorem embedFTrees_lift (roots : List Tree) : ∀ ts : List NTree, embedFTrees roots (liftTrees ts) = embedTrees roots ts
  | [] => rfl
  | t :: ts => by simp only [liftTrees, embedFTrees, embedTrees, embedFTree_lift roots t, embedFTrees_lift roots ts]
end

mutual
theorem refs_lift : ∀ t : NTree, (liftTree t).refs = t.refs
  | .ingredient .. => rfl
  | .step d inputs => by simp only [liftTree, FTree.refs, NTree.refs, refsList_lift inputs]
  | .nref .. => rfl
theorem refsList_lift : ∀ ts : List NTree, FTree.refsList (liftTrees ts) = NTree.refsList ts
  | [] => rfl
  | t :: ts => by simp only [liftTrees, FTree.refsList, NTree.refsList, refs_lift t, refsList_lift ts]
end

/-- the roots built from an accumulator -/
def rootsFrom (acc : List Tree) (P : List FStmt) : List Tree := P.foldl (fun roots s => roots ++ [embedFStmt roots s]) acc

theorem rootsOfF_eq (P : List FStmt) : rootsOfF P = rootsFrom [] P := rfl

theorem rootsFrom_cons (acc : List Tree) (u : FStmt) (P : List FStmt) :
    rootsFrom acc (u :: P) = rootsFrom (acc ++ [embedFStmt acc u]) P := rfl

theorem rootsFrom_lift (nm : List Bool) : ∀ (ns : List NStmt) (k : Nat) (acc : List Tree),
    rootsFrom acc (liftFrom nm k ns) = ns.foldl (fun roots s => roots ++ [embedStmt roots s]) acc
  | [], _, _ => rfl
  | s :: ss, k, acc => by
    simp only [liftFrom, rootsFrom_cons, List.foldl_cons]
    rw [rootsFrom_lift nm ss (k + 1)]
    congr 2
    simp only [embedFStmt, embedStmt, liftStmt, embedFTree_lift]

theorem rootsOfF_lift (asts : List (List AStmt)) (ns : List NStmt) : rootsOfF (lift asts ns) = rootsOf ns :=
  rootsFrom_lift _ ns 0 []

theorem liveRefs_liftFrom (nm : List Bool) : ∀ (ns : List NStmt) (k : Nat), liveRefs (liftFrom nm k ns) = allRefs ns
  | [], _ => rfl
  | s :: ss, k => by
    have ih := liveRefs_liftFrom nm ss (k + 1)
    simp only [liveRefs, allRefs] at ih ⊢
    simp only [liftFrom, liftStmt, List.flatMap_cons, ih, refs_lift, if_true]

theorem zip_filter_liftFrom (nm : List Bool) (b : Nat) : ∀ (ns : List NStmt) (k : Nat) (roots : List Tree),
    (((liftFrom nm k ns).zip roots).filter (fun p => p.1.live && p.1.block == b)).map (·.2) =
      ((ns.zip roots).filter (fun p => p.1.block == b)).map (·.2)
  | [], _, _ => rfl
  | s :: ss, k, [] => by simp [liftFrom]
  | s :: ss, k, r :: roots => by
    simp only [liftFrom, liftStmt, List.zip_cons_cons, List.filter_cons, Bool.true_and]
    split <;> simp [zip_filter_liftFrom nm b ss (k + 1) roots]

theorem embedF_lift (asts : List (List AStmt)) (ns : List NStmt) (n : Nat) : embedF n (lift asts ns) = embed n ns := by
  simp only [embedF, embed, rootsOfF_lift]
  apply List.map_congr_left
  intro b _
  exact zip_filter_liftFrom _ b ns 0 _

-- ================================================================ proofs: trees

mutual
/-- the references after inlining: a reference to `k` is replaced by the references of the inlined tree -/
theorem FTree.refs_inline (k : Nat) (x : FTree) : ∀ t : FTree,
    (FTree.inline k x t).refs = t.refs.flatMap fun r => if r.1 == k then x.refs else [r]
  | .ingredient .. => rfl
  | .step d inputs => by simp only [FTree.inline, FTree.refs, FTree.refsList_inline k x inputs]
  | .nref s i a => by
    simp only [FTree.inline, FTree.refs, List.flatMap_cons, List.flatMap_nil, List.append_nil]
    split <;> rfl
  | .sub b ns sh => by simp only [FTree.inline, FTree.refs, FTree.refs_inline k x b]
theorem FTree.refsList_inline (k : Nat) (x : FTree) : ∀ ts : List FTree,
    FTree.refsList (FTree.inlineList k x ts) = (FTree.refsList ts).flatMap fun r => if r.1 == k then x.refs else [r]
  | [] => rfl
  | t :: ts => by
    simp only [FTree.inlineList, FTree.refsList, List.flatMap_append, FTree.refs_inline k x t,
      FTree.refsList_inline k x ts]
end

mutual
/-- the names of the inlined named sub recipes of a tree -/
def FTree.subNames : FTree → List (List SVS)
  | .ingredient .. => []
  | .step _ inputs => FTree.subNamesList inputs
  | .nref .. => []
  | .sub b ns _ => ns :: b.subNames
def FTree.subNamesList : List FTree → List (List SVS)
  | [] => []
  | t :: ts => t.subNames ++ FTree.subNamesList ts
end

mutual
theorem FTree.subNames_inline (k : Nat) (x : FTree) : ∀ (t : FTree) (nm : List SVS),
    nm ∈ (FTree.inline k x t).subNames → nm ∈ t.subNames ∨ nm ∈ x.subNames
  | .ingredient .., nm, h => by simp [FTree.inline, FTree.subNames] at h
  | .step d inputs, nm, h => by
    simp only [FTree.inline, FTree.subNames] at h ⊢
    exact FTree.subNamesList_inline k x inputs nm h
  | .nref s i a, nm, h => by
    simp only [FTree.inline] at h
    split at h
    · exact Or.inr h
    · simp [FTree.subNames] at h
  | .sub b ns sh, nm, h => by
    simp only [FTree.inline, FTree.subNames, List.mem_cons] at h ⊢
    rcases h with h | h
    · exact Or.inl (Or.inl h)
    · rcases FTree.subNames_inline k x b nm h with h | h
      · exact Or.inl (Or.inr h)
      · exact Or.inr h
theorem FTree.subNamesList_inline (k : Nat) (x : FTree) : ∀ (ts : List FTree) (nm : List SVS),
    nm ∈ FTree.subNamesList (FTree.inlineList k x ts) → nm ∈ FTree.subNamesList ts ∨ nm ∈ x.subNames
  | [], nm, h => by simp [FTree.inlineList, FTree.subNamesList] at h
  | t :: ts, nm, h => by
    simp only [FTree.inlineList, FTree.subNamesList, List.mem_append] at h ⊢
    rcases h with h | h
    · rcases FTree.subNames_inline k x t nm h with h | h
      · exact Or.inl (Or.inl h)
      · exact Or.inr h
    · rcases FTree.subNamesList_inline k x ts nm h with h | h
      · exact Or.inl (Or.inr h)
      · exact Or.inr h
end

mutual
/-- the embedding only looks at the roots of the referenced statements -/
theorem embedFTree_congr (r1 r2 : List Tree) : ∀ t : FTree, (∀ r ∈ t.refs, r1[r.1]? = r2[r.1]?) →
    embedFTree r1 t = embedFTree r2 t
  | .ingredient .., _ => rfl
  | .step d inputs, h => by
    simp only [embedFTree]
    rw [embedFTrees_congr r1 r2 inputs (by simpa [FTree.refs] using h)]
  | .nref s i a, h => by
    simp only [embedFTree]
    rw [h (s, i, a) (by simp [FTree.refs])]
  | .sub b ns sh, h => by
    simp only [embedFTree]
    rw [embedFTree_congr r1 r2 b (by simpa [FTree.refs] using h)]
theorem embedFTrees_congr (r1 r2 : List Tree) : ∀ ts : List FTree, (∀ r ∈ FTree.refsList ts, r1[r.1]? = r2[r.1]?) →
    embedFTrees r1 ts = embedFTrees r2 ts
  | [], _ => rfl
  | t :: ts, h => by
    simp only [embedFTrees]
    rw [embedFTree_congr r1 r2 t (fun r hr => h r (by simp [FTree.refsList, hr])),
      embedFTrees_congr r1 r2 ts (fun r hr => h r (by simp [FTree.refsList, hr]))]
end

theorem embedFStmt_congr (r1 r2 : List Tree) (u : FStmt) (h : ∀ r ∈ u.tree.refs, r1[r.1]? = r2[r.1]?) :
    embedFStmt r1 u = embedFStmt r2 u := by
  simp only [embedFStmt, embedFTree_congr r1 r2 u.tree h]

theorem rootsFrom_prefix : ∀ (P : List FStmt) (acc : List Tree), ∃ Y, rootsFrom acc P = acc ++ Y ∧ Y.length = P.length
  | [], acc => ⟨[], by simp [rootsFrom], rfl⟩
  | u :: P, acc => by
    obtain ⟨Y, hY, hl⟩ := rootsFrom_prefix P (acc ++ [embedFStmt acc u])
    exact ⟨embedFStmt acc u :: Y, by rw [rootsFrom_cons, hY]; simp, by simp [hl]⟩

theorem rootsOfF_length (P : List FStmt) : (rootsOfF P).length = P.length := by
  obtain ⟨Y, hY, hl⟩ := rootsFrom_prefix P []
  rw [rootsOfF_eq, hY]; simpa using hl

/-- the root of a statement whose references point backwards is its embedding under the final roots -/
theorem rootsFrom_getElem : ∀ (P : List FStmt) (acc : List Tree) (j : Nat) (u : FStmt), P[j]? = some u →
    (∀ r ∈ u.tree.refs, r.1 < acc.length + j) →
    (rootsFrom acc P)[acc.length + j]? = some (embedFStmt (rootsFrom acc P) u)
  | [], _, _, _, h, _ => by simp at h
  | v :: P, acc, 0, u, h, hr => by
    simp only [List.getElem?_cons_zero, Option.some.injEq] at h
    subst h
    obtain ⟨Y, hY, _⟩ := rootsFrom_prefix P (acc ++ [embedFStmt acc v])
    rw [rootsFrom_cons, hY]
    have hc : embedFStmt (acc ++ [embedFStmt acc v] ++ Y) v = embedFStmt acc v := by
      apply embedFStmt_congr
      intro r hr'
      have := hr r hr'
      rw [List.append_assoc, List.getElem?_append_left (by omega)]
    rw [hc, List.append_assoc, List.getElem?_append_right (by omega)]
    simp
  | v :: P, acc, j + 1, u, h, hr => by
    simp only [List.getElem?_cons_succ] at h
    rw [rootsFrom_cons]
    have := rootsFrom_getElem P (acc ++ [embedFStmt acc v]) j u h (by
      intro r hr'; have := hr r hr'; simp only [List.length_append, List.length_singleton]; omega)
    simp only [List.length_append, List.length_singleton] at this
    have e : acc.length + 1 + j = acc.length + (j + 1) := by omega
    rw [e] at this
    exact this

theorem rootsOfF_getElem (P : List FStmt) (j : Nat) (u : FStmt) (h : P[j]? = some u)
    (hr : ∀ r ∈ u.tree.refs, r.1 < j) : (rootsOfF P)[j]? = some (embedFStmt (rootsOfF P) u) := by
  have := rootsFrom_getElem P [] j u h (by simpa using hr)
  simpa [rootsOfF_eq] using this

-- ================================================================ proofs: the substitution of the pass is inlining by name

/-- what the substitution of `old` by `new` needs to know about a reference leaf `r` when statement `k` is inlined -/
def LeafOk (roots roots' : List Tree) (old new : Tree) (k : Nat) (r : Nat × Nat × Amount) : Prop :=
  (r.1 = k → Tree.reference (roots[r.1]?.getD default) r.2.1 r.2.2 = old) ∧
  (r.1 ≠ k → Tree.beq (Tree.reference (roots[r.1]?.getD default) r.2.1 r.2.2) old = false ∧
              roots'[r.1]?.getD default = Tree.subst old new (roots[r.1]?.getD default))

mutual
theorem embed_inline (roots roots' : List Tree) (old new : Tree) (ho : old.isRef = true) (k : Nat) (x : FTree)
    (hx : embedFTree roots' x = new) : ∀ t : FTree, (∀ r ∈ t.refs, LeafOk roots roots' old new k r) →
    Tree.subst old new (embedFTree roots t) = embedFTree roots' (FTree.inline k x t)
  | .ingredient d q, _ => by
    have : Tree.beq (.ingredient d q) old = false := by cases old <;> simp [Tree.isRef] at ho; simp [Tree.beq]
    simp [embedFTree, FTree.inline, Tree.subst, this]
  | .step d inputs, h => by
    have : Tree.beq (.step d (embedFTrees roots inputs)) old = false := by
      cases old <;> simp [Tree.isRef] at ho; simp [Tree.beq]
    simp only [embedFTree, FTree.inline, Tree.subst, this, Bool.false_eq_true, if_false]
    rw [embeds_inline roots roots' old new ho k x hx inputs (by simpa [FTree.refs] using h)]
  | .nref s i a, h => by
    obtain ⟨h1, h2⟩ := h (s, i, a) (by simp [FTree.refs])
    simp only at h1 h2
    by_cases hs : s = k
    · have he := h1 hs
      simp only [embedFTree, FTree.inline, hs, beq_self_eq_true, if_true]
      rw [hs] at he
      rw [he]
      cases old <;> simp [Tree.isRef] at ho
      simp only [Tree.subst, Tree.beq_refl, if_true, hx]
    · obtain ⟨hb, hr⟩ := h2 hs
      have hsk : (s == k) = false := by simpa using hs
      simp only [embedFTree, FTree.inline, hsk, Bool.false_eq_true, if_false, Tree.subst, hb, hr]
  | .sub b ns sh, h => by
    simp only [embedFTree, FTree.inline]
    rw [Tree.subst_sub _ _ _ _ _ ho, embed_inline roots roots' old new ho k x hx b (by simpa [FTree.refs] using h)]
theorem embeds_inline (roots roots' : List Tree) (old new : Tree) (ho : old.isRef = true) (k : Nat) (x : FTree)
    (hx : embedFTree roots' x = new) : ∀ ts : List FTree, (∀ r ∈ FTree.refsList ts, LeafOk roots roots' old new k r) →
    Tree.substList old new (embedFTrees roots ts) = embedFTrees roots' (FTree.inlineList k x ts)
  | [], _ => rfl
  | t :: ts, h => by
    simp only [embedFTrees, FTree.inlineList, Tree.substList]
    rw [embed_inline roots roots' old new ho k x hx t (fun r hr => h r (by simp [FTree.refsList, hr])),
      embeds_inline roots roots' old new ho k x hx ts (fun r hr => h r (by simp [FTree.refsList, hr]))]
end

/-- all roots are rewritten alike when every statement is -/
theorem rootsFrom_map (σ : Tree → Tree) (f : FStmt → FStmt) (full : List Tree) : ∀ (Q : List FStmt) (acc : List Tree),
    rootsFrom acc Q = full →
    (∀ j u, Q[j]? = some u → (∀ r ∈ u.tree.refs, r.1 < acc.length + j) ∧ (∀ r ∈ (f u).tree.refs, r.1 < acc.length + j) ∧
      embedFStmt (full.map σ) (f u) = σ (embedFStmt full u)) →
    rootsFrom (acc.map σ) (Q.map f) = full.map σ
  | [], acc, h, _ => by simp only [rootsFrom, List.foldl_nil, List.map_nil] at h ⊢; rw [h]
  | u :: Q, acc, h, H => by
    rw [rootsFrom_cons] at h
    obtain ⟨Y, hY, _⟩ := rootsFrom_prefix Q (acc ++ [embedFStmt acc u])
    rw [h] at hY
    obtain ⟨h1, h2, h3⟩ := H 0 u rfl
    have e1 : embedFStmt (acc.map σ) (f u) = embedFStmt (full.map σ) (f u) := by
      apply embedFStmt_congr
      intro r hr
      have := h2 r hr
      rw [hY, List.append_assoc, List.map_append, List.getElem?_append_left (by simpa using this)]
    have e2 : embedFStmt full u = embedFStmt acc u := by
      apply embedFStmt_congr
      intro r hr
      have := h1 r hr
      rw [hY, List.append_assoc, List.getElem?_append_left (by simpa using this)]
    rw [List.map_cons, rootsFrom_cons, e1, h3, e2]
    have := rootsFrom_map σ f full Q (acc ++ [embedFStmt acc u]) h (by
      intro j v hv
      have := H (j + 1) v (by simpa using hv)
      simp only [List.length_append, List.length_singleton]
      have e : acc.length + 1 + j = acc.length + (j + 1) := by omega
      rw [e]; exact this)
    simpa using this

/-- folding statement `k` into its user, seen from one statement -/
def killInline (k : Nat) (x : FTree) (u : FStmt) : FStmt :=
  { u with tree := FTree.inline k x u.tree, live := u.live && u.sid != k }

theorem foldStmt_eq (P : List FStmt) (k : Nat) :
    Spec.foldStmt P k = match P[k]? with
      | some st => if Spec.canFold P st then P.map (killInline k st.inlined) else P
      | none => P := rfl

theorem filter_sid_eq : ∀ (P : List FStmt) (off : Nat), (∀ j u, P[j]? = some u → u.sid = off + j) →
    ∀ k st, P[k]? = some st → P.filter (fun u => u.sid == off + k) = [st]
  | [], _, _, _, _, h => by simp at h
  | v :: P, off, hs, 0, st, h => by
    simp only [List.getElem?_cons_zero, Option.some.injEq] at h
    subst h
    have hv : v.sid = off := by simpa using hs 0 v rfl
    have : P.filter (fun u => u.sid == off) = [] := by
      rw [List.filter_eq_nil_iff]
      intro u hu
      obtain ⟨j, hj⟩ := List.mem_iff_getElem?.mp hu
      have := hs (j + 1) u (by simpa using hj)
      simp only [beq_iff_eq]
      omega
    simp only [Nat.add_zero, List.filter_cons, hv, beq_self_eq_true, if_true, this]
  | v :: P, off, hs, k + 1, st, h => by
    have hv : v.sid = off := by simpa using hs 0 v rfl
    have hne : (v.sid == off + (k + 1)) = false := by simp [hv]
    simp only [List.getElem?_cons_succ] at h
    have := filter_sid_eq P (off + 1) (fun j u hj => by
      have := hs (j + 1) u (by simpa using hj); omega) k st h
    have e : off + 1 + k = off + (k + 1) := by omega
    rw [e] at this
    simp only [List.filter_cons, hne, Bool.false_eq_true, if_false, this]

/-- the tagged references of one statement, if it remains -/
def stmtRefs (u : FStmt) : List (Nat × Nat × Amount × Nat) :=
  if u.live then u.tree.refs.map fun r => (r.1, r.2.1, r.2.2, u.block) else []

theorem liveRefs_eq (P : List FStmt) : liveRefs P = P.flatMap stmtRefs := rfl

/-- **conservation of references**: folding statement `k` removes the (only) reference to `k`; every other reference
    of the remaining program stays, with the same block -/
theorem liveRefs_fold (P : List FStmt) (k : Nat) (st : FStmt) (hst : P[k]? = some st)
    (hsid : ∀ (j : Nat) (u : FStmt), P[j]? = some u → u.sid = j) (hlive : st.live = true)
    (hself : ∀ r ∈ st.tree.refs, r.1 ≠ k) (a : Amount) (hone : (liveRefs P).filter (fun r => r.1 == k) = [(k, 0, a, st.block)]) (x : FTree)
    (hx : x.refs = st.tree.refs) :
    (liveRefs (P.map (killInline k x))).Perm ((liveRefs P).filter (fun r => !(r.1 == k))) := by
  let ψ : Nat × Nat × Amount × Nat → List (Nat × Nat × Amount × Nat) := fun r =>
    if r.1 == k then x.refs.map fun r' => (r'.1, r'.2.1, r'.2.2, r.2.2.2) else [r]
  let M := (P.filter (fun u => !(u.sid == k))).flatMap stmtRefs
  -- the new references are the old ones of the other statements, with the reference to `k` expanded
  have hnew : liveRefs (P.map (killInline k x)) = M.flatMap ψ := by
    have h1 : ∀ u : FStmt, stmtRefs (killInline k x u) = if !(u.sid == k) then (stmtRefs u).flatMap ψ else [] := by
      intro u
      obtain ⟨usid, ublock, utree, unames, ush, unamed, ulive⟩ := u
      simp only [stmtRefs, killInline]
      cases ulive with
      | false => simp
      | true =>
        cases hk : (usid == k) with
        | true => simp [bne, hk]
        | false =>
          simp only [bne, hk, Bool.not_false, Bool.and_self, if_true, FTree.refs_inline, List.map_flatMap,
            List.flatMap_map]
          congr 1
          funext r
          simp only [ψ]
          split <;> simp
    rw [liveRefs_eq, List.flatMap_map]
    have h2 : ∀ (Q : List FStmt), Q.flatMap (fun u => stmtRefs (killInline k x u)) =
        ((Q.filter (fun u => !(u.sid == k))).flatMap stmtRefs).flatMap ψ := by
      intro Q
      induction Q with
      | nil => rfl
      | cons u Q ih =>
        simp only [List.flatMap_cons, ih, h1 u, List.filter_cons]
        cases (u.sid == k) <;> simp [List.flatMap_append]
    exact h2 P
  have hsplit : (liveRefs P).Perm (stmtRefs st ++ M) := by
    have := flatMap_filter_perm (fun u : FStmt => u.sid == k) stmtRefs P
    have hf := filter_sid_eq P 0 (fun j u hj => by simpa using hsid j u hj) k st hst
    simp only [Nat.zero_add] at hf
    rw [hf] at this
    simpa [liveRefs_eq, M] using this
  have hst0 : (stmtRefs st).filter (fun r => r.1 == k) = [] := by
    rw [List.filter_eq_nil_iff]
    intro r hr
    simp only [stmtRefs, hlive, if_true, List.mem_map] at hr
    obtain ⟨r', hr', rfl⟩ := hr
    simpa using hself r' hr'
  have hst1 : (stmtRefs st).filter (fun r => !(r.1 == k)) = stmtRefs st := by
    rw [List.filter_eq_self]
    intro r hr
    simp only [stmtRefs, hlive, if_true, List.mem_map] at hr
    obtain ⟨r', hr', rfl⟩ := hr
    simpa using hself r' hr'
  have hM : M.filter (fun r => r.1 == k) = [(k, 0, a, st.block)] := by
    have := (hsplit.filter (fun r => r.1 == k))
    rw [hone, List.filter_append, hst0, List.nil_append] at this
    exact (List.singleton_perm.mp this).symm
  rw [hnew]
  refine (flatMap_expand_perm (fun r => r.1 == k) ψ M (fun r hr => by
    show (if r.1 == k then _ else [r]) = [r]
    rw [if_neg (by simpa using hr)])).trans ?_
  rw [hM]
  have hψ : [(k, 0, a, st.block)].flatMap ψ = stmtRefs st := by
    simp [ψ, stmtRefs, hlive, hx]
  rw [hψ]
  refine List.perm_append_comm.trans ?_
  have := (hsplit.filter (fun r => !(r.1 == k))).symm
  rw [List.filter_append, hst1] at this
  exact this

-- ================================================================ proofs: the invariant of the abstract program

/-- `P` is the program `ns` of `asts` in which some statements before `k` have been folded -/
structure WFP (asts : List (List AStmt)) (ns : List NStmt) (k : Nat) (P : List FStmt) : Prop where
  len : P.length = ns.length
  /-- ids, blocks, names and `:=` flags never change -/
  static : ∀ (j : Nat) (u : FStmt), P[j]? = some u → ∃ s, ns[j]? = some s ∧ u.sid = j ∧ u.block = s.block ∧
    u.names = s.names ∧ u.showNames = s.showNames ∧ u.named = (namedFlags asts)[j]?.getD false
  /-- references point to outputs of earlier statements -/
  refsBack : ∀ (j : Nat) (u : FStmt), P[j]? = some u → ∀ r ∈ u.tree.refs,
    r.1 < j ∧ ∃ s, ns[r.1]? = some s ∧ r.2.1 < s.names.length
  /-- only statements before `k` have been deleted -/
  dead : ∀ (j : Nat) (u : FStmt), P[j]? = some u → u.live = false → j < k
  /-- an inlined named sub recipe has the names of a statement before `k` -/
  subs : ∀ (j : Nat) (u : FStmt), P[j]? = some u → ∀ nmx ∈ u.tree.subNames,
    ∃ i s, i < k ∧ ns[i]? = some s ∧ nmx = s.names ∧ s.names ≠ []

theorem WFP.mono {asts ns k P} (h : WFP asts ns k P) : WFP asts ns (k + 1) P :=
  { h with
    dead := fun j u hu hl => Nat.lt_succ_of_lt (h.dead j u hu hl)
    subs := fun j u hu nmx hn => by
      obtain ⟨i, s, hi, rest⟩ := h.subs j u hu nmx hn
      exact ⟨i, s, Nat.lt_succ_of_lt hi, rest⟩ }

theorem WFP.get {asts ns k P} (h : WFP asts ns k P) {j : Nat} {s : NStmt} (hj : ns[j]? = some s) :
    ∃ u, P[j]? = some u ∧ u.sid = j ∧ u.block = s.block ∧ u.names = s.names ∧ u.showNames = s.showNames ∧
      u.named = (namedFlags asts)[j]?.getD false := by
  have hlt : j < P.length := by rw [h.len]; exact (List.getElem?_eq_some_iff.mp hj).1
  obtain ⟨s', hs', rest⟩ := h.static j P[j] (List.getElem?_eq_getElem hlt)
  rw [hj] at hs'; cases hs'
  exact ⟨P[j], List.getElem?_eq_getElem hlt, rest⟩

theorem WFP.sid {asts ns k P} (h : WFP asts ns k P) : ∀ (j : Nat) (u : FStmt), P[j]? = some u → u.sid = j :=
  fun j u hu => by obtain ⟨_, _, hsid, _⟩ := h.static j u hu; exact hsid

theorem WFP.root {asts ns k P} (h : WFP asts ns k P) {j : Nat} {u : FStmt} (hu : P[j]? = some u) :
    (rootsOfF P)[j]? = some (embedFStmt (rootsOfF P) u) :=
  rootsOfF_getElem P j u hu (fun r hr => (h.refsBack j u hu r hr).1)

theorem embedFStmt_named (roots : List Tree) (u : FStmt) (hn : u.names ≠ []) :
    embedFStmt roots u = .sub (embedFTree roots u.tree) u.names u.showNames := by
  unfold embedFStmt
  cases hx : u.names with
  | nil => exact absurd hx hn
  | cons a b => simp

theorem embedFStmt_unnamed (roots : List Tree) (u : FStmt) (hn : u.names = []) :
    embedFStmt roots u = embedFTree roots u.tree := by
  simp [embedFStmt, hn]

/-- the root of another statement is not `==` to the root of the single-output statement `k` -/
theorem WFP.root_ne {asts ns k P} (h : WFP asts ns k P) (hU : KeysUnique (definedNames ns)) {s : NStmt}
    (hk : ns[k]? = some s) (hne : s.names ≠ []) {j : Nat} {u : FStmt} (hu : P[j]? = some u) (hjk : j ≠ k)
    (b : Tree) (sh : Bool) :
    Tree.beq (embedFStmt (rootsOfF P) u) (.sub b s.names sh) = false ∧
    Tree.beq (.sub b s.names sh) (embedFStmt (rootsOfF P) u) = false := by
  obtain ⟨sj, hsj, _, _, hnames, _⟩ := h.static j u hu
  have key : ∀ (T : Tree), T = embedFStmt (rootsOfF P) u →
      (T.subNames == s.names) = true ∨ (s.names == T.subNames) = true → False := by
    intro T hT hb
    by_cases hn : u.names = []
    · rw [embedFStmt_unnamed _ _ hn] at hT
      cases ht : u.tree with
      | sub b' nmx sh' =>
        rw [ht] at hT
        simp only [embedFTree] at hT
        subst hT
        simp only [Tree.subNames] at hb
        obtain ⟨i, si, hik, hsi, hnmx, hne'⟩ := h.subs j u hu nmx (by rw [ht]; simp [FTree.subNames])
        subst hnmx
        have := same_stmt_of_names ns hU i k si s hsi hk hne' hb
        omega
      | ingredient d q =>
        rw [ht] at hT; simp only [embedFTree] at hT; subst hT
        simp only [Tree.subNames] at hb
        rcases hb with hb | hb
        · cases hx : s.names with
          | nil => exact hne hx
          | cons a b => rw [hx] at hb; cases hb
        · cases hx : s.names with
          | nil => exact hne hx
          | cons a b => rw [hx] at hb; cases hb
      | step d i =>
        rw [ht] at hT; simp only [embedFTree] at hT; subst hT
        simp only [Tree.subNames] at hb
        rcases hb with hb | hb
        · cases hx : s.names with
          | nil => exact hne hx
          | cons a b => rw [hx] at hb; cases hb
        · cases hx : s.names with
          | nil => exact hne hx
          | cons a b => rw [hx] at hb; cases hb
      | nref a b c =>
        rw [ht] at hT; simp only [embedFTree] at hT; subst hT
        simp only [Tree.subNames] at hb
        rcases hb with hb | hb
        · cases hx : s.names with
          | nil => exact hne hx
          | cons a b => rw [hx] at hb; cases hb
        · cases hx : s.names with
          | nil => exact hne hx
          | cons a b => rw [hx] at hb; cases hb
    · rw [embedFStmt_named _ _ hn] at hT
      subst hT
      simp only [Tree.subNames] at hb
      rw [hnames] at hb hn
      exact hjk (same_stmt_of_names ns hU j k sj s hsj hk hn hb)
  constructor
  · cases hb : Tree.beq (embedFStmt (rootsOfF P) u) (.sub b s.names sh) with
    | false => rfl
    | true => exact (key _ rfl (Or.inl (by simpa [Tree.subNames] using Tree.beq_subNames hb))).elim
  · cases hb : Tree.beq (.sub b s.names sh) (embedFStmt (rootsOfF P) u) with
    | false => rfl
    | true => exact (key _ rfl (Or.inr (by simpa [Tree.subNames] using Tree.beq_subNames hb))).elim

-- ================================================================ proofs: folding one single-output statement

theorem FStmt.inlined_refs (st : FStmt) : st.inlined.refs = st.tree.refs := by
  unfold FStmt.inlined; split <;> rfl

mutual
theorem FTree.inline_id (k : Nat) (x : FTree) : ∀ t : FTree, (∀ r ∈ t.refs, r.1 ≠ k) → FTree.inline k x t = t
  | .ingredient .., _ => rfl
  | .step d inputs, h => by
    simp only [FTree.inline]; rw [FTree.inlineList_id k x inputs (by simpa [FTree.refs] using h)]
  | .nref s i a, h => by
    have : s ≠ k := h (s, i, a) (by simp [FTree.refs])
    simp [FTree.inline, this]
  | .sub b ns sh, h => by
    simp only [FTree.inline]; rw [FTree.inline_id k x b (by simpa [FTree.refs] using h)]
theorem FTree.inlineList_id (k : Nat) (x : FTree) : ∀ ts : List FTree, (∀ r ∈ FTree.refsList ts, r.1 ≠ k) →
    FTree.inlineList k x ts = ts
  | [], _ => rfl
  | t :: ts, h => by
    simp only [FTree.inlineList]
    rw [FTree.inline_id k x t (fun r hr => h r (by simp [FTree.refsList, hr])),
      FTree.inlineList_id k x ts (fun r hr => h r (by simp [FTree.refsList, hr]))]
end

/-- the hypotheses under which statement `k` (`s` in `ns`, `st` in `P`) is folded: one output `n0`, one reference,
    taking the amount `a` in the block of the statement -/
structure FoldCtx (asts : List (List AStmt)) (ns : List NStmt) (k : Nat) (P : List FStmt) (s : NStmt) (st : FStmt)
    (n0 : SVS) (a : Amount) : Prop where
  wf : WFP asts ns k P
  uniq : KeysUnique (definedNames ns)
  hs : ns[k]? = some s
  hst : P[k]? = some st
  names : s.names = [n0]
  one : refsTo P k 0 = [(a, st.block)]

namespace FoldCtx
variable {asts : List (List AStmt)} {ns : List NStmt} {k : Nat} {P : List FStmt} {s : NStmt} {st : FStmt} {n0 : SVS}
  {a : Amount}

theorem stNames (c : FoldCtx asts ns k P s st n0 a) : st.names = [n0] := by
  obtain ⟨s', hs', _, _, hn, _⟩ := c.wf.static k st c.hst
  rw [c.hs] at hs'; cases hs'
  rw [hn, c.names]

theorem live (c : FoldCtx asts ns k P s st n0 a) : st.live = true := by
  cases h : st.live with
  | true => rfl
  | false => exact absurd (c.wf.dead k st c.hst h) (Nat.lt_irrefl _)

/-- the root of the folded statement -/
def R (_ : FoldCtx asts ns k P s st n0 a) : Tree := .sub (embedFTree (rootsOfF P) st.tree) [n0] st.showNames
/-- the replaced reference -/
def old (c : FoldCtx asts ns k P s st n0 a) : Tree := .reference c.R 0 a
/-- what it is replaced by -/
def new (_ : FoldCtx asts ns k P s st n0 a) : Tree := embedFTree (rootsOfF P) st.inlined

theorem root (c : FoldCtx asts ns k P s st n0 a) : (rootsOfF P)[k]? = some c.R := by
  rw [c.wf.root c.hst, embedFStmt_named _ _ (by rw [c.stNames]; simp), c.stNames]
  rfl

theorem oldIsRef (c : FoldCtx asts ns k P s st n0 a) : c.old.isRef = true := rfl

/-- every reference to `k` is the one reference: output 0, amount `a`, from a later remaining statement -/
theorem refK (c : FoldCtx asts ns k P s st n0 a) {j : Nat} {u : FStmt} (hu : P[j]? = some u)
    {r : Nat × Nat × Amount} (hr : r ∈ u.tree.refs) (hk : r.1 = k) :
    r.2.1 = 0 ∧ r.2.2 = a ∧ u.live = true ∧ k < j := by
  obtain ⟨hlt, s', hs', hidx⟩ := c.wf.refsBack j u hu r hr
  rw [hk, c.hs] at hs'
  cases hs'
  rw [c.names] at hidx
  have h0 : r.2.1 = 0 := by simpa using hidx
  have hl : u.live = true := by
    cases h : u.live with
    | true => rfl
    | false => have := c.wf.dead j u hu h; omega
  refine ⟨h0, ?_, hl, by omega⟩
  have hm : (r.2.2, u.block) ∈ refsTo P k 0 := by
    simp only [refsTo, liveRefs, List.mem_map, List.mem_filter, List.mem_flatMap]
    refine ⟨(r.1, r.2.1, r.2.2, u.block), ⟨⟨u, List.mem_of_getElem? hu, ?_⟩, by simp [hk, h0]⟩, rfl⟩
    simp only [hl, if_true, List.mem_map]
    exact ⟨r, hr, rfl⟩
  rw [c.one] at hm
  simp only [List.mem_singleton, Prod.mk.injEq] at hm
  exact hm.1

/-- the only remaining reference to `k`, tagged -/
theorem oneLive (c : FoldCtx asts ns k P s st n0 a) :
    (liveRefs P).filter (fun r => r.1 == k) = [(k, 0, a, st.block)] := by
  have hsame : (liveRefs P).filter (fun r => r.1 == k) = (liveRefs P).filter (fun r => r.1 == k && r.2.1 == 0) := by
    apply List.filter_congr
    intro r hr
    simp only [liveRefs, List.mem_flatMap] at hr
    obtain ⟨u, hu, hr⟩ := hr
    obtain ⟨j, hj⟩ := List.mem_iff_getElem?.mp hu
    split at hr
    · simp only [List.mem_map] at hr
      obtain ⟨r', hr', rfl⟩ := hr
      by_cases hk : r'.1 = k
      · simp [hk, (c.refK hj hr' hk).1]
      · simp [hk]
    · cases hr
  rw [hsame]
  have hone := c.one
  unfold refsTo at hone
  generalize hL : (liveRefs P).filter (fun r => r.1 == k && r.2.1 == 0) = L at hone
  have hall : ∀ r ∈ L, r.1 = k ∧ r.2.1 = 0 := by
    intro r hr
    rw [← hL] at hr
    simpa using (List.mem_filter.mp hr).2
  match L, hone, hall with
  | [r], hone, hall =>
    simp only [List.map_cons, List.map_nil, List.cons.injEq, Prod.mk.injEq, and_true] at hone
    obtain ⟨h1, h2⟩ := hall r (by simp)
    obtain ⟨r1, r2, r3, r4⟩ := r
    simp only at h1 h2 hone
    rw [h1, h2, hone.1, hone.2]
  | [], hone, _ => simp at hone
  | _ :: _ :: _, hone, _ => simp at hone

/-- the substitution the pass performs -/
def σ (c : FoldCtx asts ns k P s st n0 a) : Tree → Tree := Tree.subst c.old c.new

theorem R_eq (c : FoldCtx asts ns k P s st n0 a) :
    c.R = .sub (embedFTree (rootsOfF P) st.tree) s.names st.showNames := by rw [c.names]; rfl

theorem sNames_ne (c : FoldCtx asts ns k P s st n0 a) : s.names ≠ [] := by rw [c.names]; simp

/-- a referenced statement other than `k`: it exists, and its root is not `==` to the root of `k` -/
theorem refRoot (c : FoldCtx asts ns k P s st n0 a) {j : Nat} {u : FStmt} (hu : P[j]? = some u)
    {r : Nat × Nat × Amount} (hr : r ∈ u.tree.refs) (hk : r.1 ≠ k) :
    ∃ u', P[r.1]? = some u' ∧ (rootsOfF P)[r.1]? = some (embedFStmt (rootsOfF P) u') ∧ r.1 < j ∧
      Tree.beq (embedFStmt (rootsOfF P) u') c.R = false ∧ Tree.beq c.R (embedFStmt (rootsOfF P) u') = false := by
  obtain ⟨hlt, s', hs', _⟩ := c.wf.refsBack j u hu r hr
  obtain ⟨u', hu', _⟩ := c.wf.get hs'
  have := c.wf.root_ne c.uniq c.hs c.sNames_ne hu' hk (embedFTree (rootsOfF P) st.tree) st.showNames
  rw [← c.R_eq] at this
  exact ⟨u', hu', c.wf.root hu', hlt, this⟩

theorem beq_ref_false {s s' : Tree} (h : Tree.beq s s' = false) (n n' : Nat) (a a' : Amount) :
    Tree.beq (.reference s n a) (.reference s' n' a') = false := by simp [Tree.beq, h]

/-- the substitution changes no root up to `k` -/
theorem fix (c : FoldCtx asts ns k P s st n0 a) : ∀ (j : Nat), j ≤ k → ∀ u, P[j]? = some u →
    c.σ (embedFStmt (rootsOfF P) u) = embedFStmt (rootsOfF P) u := by
  intro j
  induction j using Nat.strongRecOn with
  | _ j ih =>
    intro hjk u hu
    have hne : ∀ r ∈ u.tree.refs, r.1 ≠ k := fun r hr => by have := (c.wf.refsBack j u hu r hr).1; omega
    have hleaf : ∀ r ∈ u.tree.refs, LeafOk (rootsOfF P) (rootsOfF P) c.old c.new k r := by
      intro r hr
      refine ⟨fun h => absurd h (hne r hr), fun _ => ?_⟩
      obtain ⟨u', hu', hroot, hlt, hb, _⟩ := c.refRoot hu hr (hne r hr)
      rw [hroot]
      simp only [Option.getD_some]
      exact ⟨beq_ref_false hb _ _ _ _, (ih r.1 hlt (by omega) u' hu').symm⟩
    have ht : c.σ (embedFTree (rootsOfF P) u.tree) = embedFTree (rootsOfF P) u.tree := by
      have := embed_inline (rootsOfF P) (rootsOfF P) c.old c.new c.oldIsRef k st.inlined rfl u.tree hleaf
      rw [FTree.inline_id k _ u.tree hne] at this
      exact this
    by_cases hn : u.names = []
    · rw [embedFStmt_unnamed _ _ hn]; exact ht
    · rw [embedFStmt_named _ _ hn]
      show Tree.subst c.old c.new _ = _
      rw [Tree.subst_sub _ _ _ _ _ c.oldIsRef]
      exact congrArg (fun t => Tree.sub t u.names u.showNames) ht

theorem leaf (c : FoldCtx asts ns k P s st n0 a) {j : Nat} {u : FStmt} (hu : P[j]? = some u)
    {r : Nat × Nat × Amount} (hr : r ∈ u.tree.refs) :
    LeafOk (rootsOfF P) ((rootsOfF P).map c.σ) c.old c.new k r := by
  constructor
  · intro hk
    obtain ⟨h0, ha, _, _⟩ := c.refK hu hr hk
    rw [hk, c.root, h0, ha]
    rfl
  · intro hk
    obtain ⟨u', hu', hroot, hlt, hb, _⟩ := c.refRoot hu hr hk
    rw [List.getElem?_map, hroot]
    exact ⟨beq_ref_false hb _ _ _ _, rfl⟩

theorem hx (c : FoldCtx asts ns k P s st n0 a) : embedFTree ((rootsOfF P).map c.σ) st.inlined = c.new := by
  apply embedFTree_congr
  intro r hr
  rw [FStmt.inlined_refs] at hr
  have hne : r.1 ≠ k := by have := (c.wf.refsBack k st c.hst r hr).1; omega
  obtain ⟨u', hu', hroot, hlt, _⟩ := c.refRoot c.hst hr hne
  rw [List.getElem?_map, hroot]
  simp only [Option.map_some]
  rw [c.fix r.1 (by omega) u' hu']

/-- every statement's root is rewritten by the substitution -/
theorem stmtRoot (c : FoldCtx asts ns k P s st n0 a) {j : Nat} {u : FStmt} (hu : P[j]? = some u) :
    embedFStmt ((rootsOfF P).map c.σ) (killInline k st.inlined u) = c.σ (embedFStmt (rootsOfF P) u) := by
  have ht := embed_inline (rootsOfF P) ((rootsOfF P).map c.σ) c.old c.new c.oldIsRef k st.inlined c.hx u.tree
    (fun r hr => c.leaf hu hr)
  by_cases hn : u.names = []
  · rw [embedFStmt_unnamed _ _ hn, embedFStmt_unnamed _ _ (by simpa [killInline] using hn)]
    exact ht.symm
  · rw [embedFStmt_named _ _ hn, embedFStmt_named _ _ (by simpa [killInline] using hn)]
    show _ = Tree.subst c.old c.new _
    rw [Tree.subst_sub _ _ _ _ _ c.oldIsRef]
    exact congrArg (fun t => Tree.sub t u.names u.showNames) ht.symm

/-- the references of a statement after the fold still point backwards -/
theorem refsAfter (c : FoldCtx asts ns k P s st n0 a) {j : Nat} {u : FStmt} (hu : P[j]? = some u)
    {r : Nat × Nat × Amount} (hr : r ∈ (killInline k st.inlined u).tree.refs) :
    r.1 ≠ k ∧ r.1 < j ∧ ∃ s', ns[r.1]? = some s' ∧ r.2.1 < s'.names.length := by
  simp only [killInline, FTree.refs_inline, List.mem_flatMap] at hr
  obtain ⟨r0, hr0, hr⟩ := hr
  split at hr
  · rename_i hk
    have hk' : r0.1 = k := by simpa using hk
    obtain ⟨_, _, _, hkj⟩ := c.refK hu hr0 hk'
    rw [FStmt.inlined_refs] at hr
    obtain ⟨hlt, rest⟩ := c.wf.refsBack k st c.hst r hr
    exact ⟨by omega, by omega, rest⟩
  · rename_i hk
    simp only [List.mem_singleton] at hr
    subst hr
    obtain ⟨hlt, rest⟩ := c.wf.refsBack j u hu r hr0
    exact ⟨by simpa using hk, hlt, rest⟩

/-- **the roots after the fold** are the old roots rewritten by the substitution -/
theorem roots' (c : FoldCtx asts ns k P s st n0 a) :
    rootsOfF (P.map (killInline k st.inlined)) = (rootsOfF P).map c.σ := by
  have := rootsFrom_map c.σ (killInline k st.inlined) (rootsOfF P) P [] rfl (by
    intro j u hu
    refine ⟨fun r hr => by simpa using (c.wf.refsBack j u hu r hr).1,
      fun r hr => by simpa using (c.refsAfter hu hr).2.1, c.stmtRoot hu⟩)
  simpa [rootsOfF_eq] using this

/-- the roots of the remaining statements of block `b` -/
def sel (P : List FStmt) (b : Nat) : List Tree :=
  ((P.zip (rootsOfF P)).filter (fun p => p.1.live && p.1.block == b)).map (·.2)

theorem embedF_eq (n : Nat) (P : List FStmt) : embedF n P = (List.range n).map (sel P) := rfl

/-- … without statement `k` -/
def selK (k : Nat) (P : List FStmt) (b : Nat) : List Tree :=
  ((P.zip (rootsOfF P)).filter (fun p => (p.1.live && p.1.block == b) && !(p.1.sid == k))).map (·.2)

theorem mem_zip_roots {P : List FStmt} {p : FStmt × Tree} (h : p ∈ P.zip (rootsOfF P)) :
    ∃ j : Nat, P[j]? = some p.1 ∧ (rootsOfF P)[j]? = some p.2 := by
  obtain ⟨j, hj⟩ := List.mem_iff_getElem?.mp h
  exact ⟨j, List.getElem?_zip_eq_some.mp hj⟩

/-- `list.remove` deletes exactly the root of statement `k` from its block -/
theorem removeRoot (c : FoldCtx asts ns k P s st n0 a) :
    removeFirst c.R (sel P st.block) = some (selK k P st.block) := by
  apply removeFirst_filter c.R (fun p : FStmt × Tree => p.1.live && p.1.block == st.block) (fun u => u.sid == k)
  · intro p hp hh
    obtain ⟨j, hj1, hj2⟩ := mem_zip_roots hp
    have : j = k := by rw [← c.wf.sid j p.1 hj1]; simpa using hh
    rw [this, c.root] at hj2
    exact (Option.some.inj hj2).symm
  · intro p hp _ hh
    obtain ⟨j, hj1, hj2⟩ := mem_zip_roots hp
    have hjk : j ≠ k := by rw [← c.wf.sid j p.1 hj1]; simpa using hh
    rw [c.wf.root hj1] at hj2
    rw [← Option.some.inj hj2, c.R_eq]
    exact (c.wf.root_ne c.uniq c.hs c.sNames_ne hj1 hjk _ _).1
  · refine ⟨(st, c.R), ?_, by simp [c.live], by simp [c.wf.sid k st c.hst]⟩
    apply List.mem_iff_getElem?.mpr
    exact ⟨k, List.getElem?_zip_eq_some.mpr ⟨c.hst, c.root⟩⟩
  · rw [List.pairwise_iff_getElem]
    intro i j hi hj hij hboth
    simp only [List.getElem_zip, beq_iff_eq] at hboth
    have h1 := c.wf.sid i _ (List.getElem?_eq_getElem (by simp at hi; omega))
    have h2 := c.wf.sid j _ (List.getElem?_eq_getElem (by simp at hj; omega))
    omega

/-- the blocks after the fold -/
theorem sel' (c : FoldCtx asts ns k P s st n0 a) (b : Nat) :
    sel (P.map (killInline k st.inlined)) b = (selK k P b).map c.σ := by
  simp only [sel, selK, c.roots', List.zip_map, List.filter_map, List.map_map]
  congr 1
  apply List.filter_congr
  intro p _
  simp only [Function.comp_def, Prod.map, killInline, bne]
  cases p.1.live <;> cases (p.1.sid == k) <;> cases (p.1.block == b) <;> rfl

theorem selK_other (c : FoldCtx asts ns k P s st n0 a) {b : Nat} (hb : b ≠ st.block) : selK k P b = sel P b := by
  simp only [sel, selK]
  congr 1
  apply List.filter_congr
  intro p hp
  obtain ⟨j, hj1, _⟩ := mem_zip_roots hp
  cases hk : (p.1.sid == k) with
  | false => simp
  | true =>
    have : j = k := by rw [← c.wf.sid j p.1 hj1]; simpa using hk
    rw [this, c.hst] at hj1
    have : p.1 = st := (Option.some.inj hj1).symm
    have hne : (st.block == b) = false := by simpa using Ne.symm hb
    simp [this, hne]

/-- **the blocks after the fold**: remove the root of `k` from its block, then substitute everywhere -/
theorem blocks' (c : FoldCtx asts ns k P s st n0 a) (n : Nat) :
    ((embedF n P).set st.block (selK k P st.block)).map (Tree.substList c.old c.new) =
      embedF n (P.map (killInline k st.inlined)) := by
  apply List.ext_getElem?
  intro b
  simp only [embedF_eq, List.getElem?_map, List.getElem?_set, List.length_map, List.length_range]
  by_cases hb : b < n
  · simp only [List.getElem?_range hb, Option.map_some, c.sel']
    by_cases he : st.block = b
    · simp only [he, if_true, hb, Option.map_some]
      rw [Tree.substList_eq_map]; rfl
    · simp only [he, if_false, Option.map_some, c.selK_other (Ne.symm he)]
      rw [Tree.substList_eq_map]; rfl
  · have : (List.range n)[b]? = none := by simp; omega
    by_cases he : st.block = b
    · simp [he, hb]
    · simp [he, this]

theorem inlined_subNames (c : FoldCtx asts ns k P s st n0 a) {nmx : List SVS} (h : nmx ∈ st.inlined.subNames) :
    nmx = s.names ∨ nmx ∈ st.tree.subNames := by
  unfold FStmt.inlined at h
  split at h
  · simp only [FTree.subNames, List.mem_cons] at h
    rcases h with h | h
    · left; rw [h, c.stNames, c.names]
    · exact Or.inr h
  · exact Or.inr h

theorem getMap {j : Nat} {u' : FStmt} {f : FStmt → FStmt} (h : (P.map f)[j]? = some u') :
    ∃ u, P[j]? = some u ∧ u' = f u := by
  rw [List.getElem?_map] at h
  cases hu : P[j]? with
  | none => rw [hu] at h; cases h
  | some u => rw [hu] at h; exact ⟨u, rfl, by cases h; rfl⟩

/-- the abstract invariant after the fold -/
theorem wf' (c : FoldCtx asts ns k P s st n0 a) : WFP asts ns (k + 1) (P.map (killInline k st.inlined)) where
  len := by rw [List.length_map, c.wf.len]
  static := fun j u' hu' => by
    obtain ⟨u, hu, rfl⟩ := getMap hu'
    exact c.wf.static j u hu
  refsBack := fun j u' hu' r hr => by
    obtain ⟨u, hu, rfl⟩ := getMap hu'
    exact (c.refsAfter hu hr).2
  dead := fun j u' hu' hl => by
    obtain ⟨u, hu, rfl⟩ := getMap hu'
    simp only [killInline, Bool.and_eq_false_iff, bne_eq_false_iff_eq] at hl
    rcases hl with hl | hl
    · exact Nat.lt_succ_of_lt (c.wf.dead j u hu hl)
    · rw [c.wf.sid j u hu] at hl; omega
  subs := fun j u' hu' nmx hn => by
    obtain ⟨u, hu, rfl⟩ := getMap hu'
    rcases FTree.subNames_inline k _ u.tree nmx hn with h | h
    · obtain ⟨i, si, hi, rest⟩ := c.wf.subs j u hu nmx h
      exact ⟨i, si, Nat.lt_succ_of_lt hi, rest⟩
    · rcases c.inlined_subNames h with h | h
      · exact ⟨k, s, Nat.lt_succ_self k, c.hs, h, c.sNames_ne⟩
      · obtain ⟨i, si, hi, rest⟩ := c.wf.subs k st c.hst nmx h
        exact ⟨i, si, Nat.lt_succ_of_lt hi, rest⟩

/-- the references to another output are conserved -/
theorem refsTo' (c : FoldCtx asts ns k P s st n0 a) {sid : Nat} (hsid : sid ≠ k) (idx : Nat) :
    (refsTo (P.map (killInline k st.inlined)) sid idx).Perm (refsTo P sid idx) := by
  have hp := liveRefs_fold P k st c.hst c.wf.sid c.live
    (fun r hr => by have := (c.wf.refsBack k st c.hst r hr).1; omega) a c.oneLive st.inlined st.inlined_refs
  unfold refsTo
  refine ((hp.filter _).map _).trans ?_
  rw [List.filter_filter]
  apply List.Perm.of_eq
  congr 1
  apply List.filter_congr
  intro r _
  by_cases h : r.1 = sid
  · simp [h, hsid]
  · simp [h]

end FoldCtx

-- ================================================================ proofs: the concrete state and the abstract program

/-- the state of the inlining loop when it reaches the table entries of statement `k` is the abstract program `P` -/
structure Abs (asts : List (List AStmt)) (ns : List NStmt) (k : Nat) (P : List FStmt) (blocks : List Block)
    (outs : List NamedOutput) : Prop where
  blocks : blocks = embedF asts.length P
  len : outs.length = (definedNames ns).length
  /-- the entry of every output of a statement from `k` on: its sub recipe is the current root of the statement, its
      recorded references are the references by name of the remaining program -/
  entry : ∀ (j : Nat) (key : SVS) (sid idx : Nat), (definedNames ns)[j]? = some (key, sid, idx) → k ≤ sid →
    ∃ o u, outs[j]? = some o ∧ P[sid]? = some u ∧ (rootsOfF P)[sid]? = some o.sub ∧ o.idx = idx ∧
      o.defBlock = u.block ∧ o.unwrap = !u.named ∧
      o.refs.Perm ((refsTo P sid idx).map fun p => (Tree.reference o.sub o.idx p.1, p.2))

theorem Abs.mono {asts ns k P blocks outs} (h : Abs asts ns k P blocks outs) : Abs asts ns (k + 1) P blocks outs :=
  { h with entry := fun j key sid idx hd hk => h.entry j key sid idx hd (by omega) }

namespace FoldCtx
variable {asts : List (List AStmt)} {ns : List NStmt} {k : Nat} {P : List FStmt} {s : NStmt} {st : FStmt} {n0 : SVS}
  {a : Amount}

/-- the concrete state after the fold is the abstract program after the fold -/
theorem abs' (c : FoldCtx asts ns k P s st n0 a) {blocks : List Block} {outs : List NamedOutput}
    (hA : Abs asts ns k P blocks outs) :
    Abs asts ns (k + 1) (P.map (killInline k st.inlined))
      ((blocks.set st.block (selK k P st.block)).map (Tree.substList c.old c.new))
      (outs.map (NamedOutput.substitute c.old c.new)) where
  blocks := by rw [hA.blocks, c.blocks']
  len := by rw [List.length_map, hA.len]
  entry := fun j key sid idx hd hk => by
    obtain ⟨o, u, ho, hu, hroot, hidx, hblk, hunw, hperm⟩ := hA.entry j key sid idx hd (by omega)
    have hsk : sid ≠ k := by omega
    have hsub : o.sub = embedFStmt (rootsOfF P) u := by
      rw [c.wf.root hu] at hroot; exact (Option.some.inj hroot).symm
    have hne := c.wf.root_ne c.uniq c.hs c.sNames_ne hu hsk (embedFTree (rootsOfF P) st.tree) st.showNames
    rw [← c.R_eq, ← hsub] at hne
    refine ⟨NamedOutput.substitute c.old c.new o, killInline k st.inlined u, by simp [ho], by simp [hu], ?_, hidx, hblk,
      hunw, ?_⟩
    · rw [c.roots', List.getElem?_map, hroot]; rfl
    · have h1 : (NamedOutput.substitute c.old c.new o).refs =
          o.refs.map (fun p => (if !(Tree.beq c.old p.1) then Tree.subst c.old c.new p.1 else p.1, p.2)) := rfl
      rw [h1]
      refine (hperm.map _).trans ?_
      rw [List.map_map]
      have h2 : ∀ p : Amount × Nat,
          ((fun p : Tree × Nat => (if !(Tree.beq c.old p.1) then Tree.subst c.old c.new p.1 else p.1, p.2)) ∘
            (fun p : Amount × Nat => (Tree.reference o.sub o.idx p.1, p.2))) p =
          (Tree.reference (NamedOutput.substitute c.old c.new o).sub (NamedOutput.substitute c.old c.new o).idx p.1,
            p.2) := by
        intro p
        have hb1 : Tree.beq c.old (Tree.reference o.sub o.idx p.1) = false := beq_ref_false hne.2 _ _ _ _
        have hb2 : Tree.beq (Tree.reference o.sub o.idx p.1) c.old = false := beq_ref_false hne.1 _ _ _ _
        simp only [Function.comp_def, hb1, Bool.not_false, if_true, Tree.subst, hb2, Bool.false_eq_true, if_false]
        rfl
      rw [List.map_congr_left (fun p _ => h2 p)]
      exact ((c.refsTo' hsk idx).map _).symm

end FoldCtx

-- ================================================================ proofs: one iteration of the loop

theorem inferQuantity_embed (roots : List Tree) : ∀ t : FTree, inferQuantity (embedFTree roots t) = t.inferQuantity
  | .ingredient d q => by simp [embedFTree, inferQuantity, FTree.inferQuantity]
  | .nref .. => by simp [embedFTree, inferQuantity, FTree.inferQuantity]
  | .step d [] => by simp [embedFTree, embedFTrees, inferQuantity, FTree.inferQuantity]
  | .step d [i] => by
    simp [embedFTree, embedFTrees, inferQuantity, FTree.inferQuantity, inferQuantity_embed roots i]
  | .step d (_ :: _ :: _) => by simp [embedFTree, embedFTrees, inferQuantity, FTree.inferQuantity]
  | .sub b [] sh => by simp [embedFTree, inferQuantity, FTree.inferQuantity]
  | .sub b [n] sh => by simp [embedFTree, inferQuantity, FTree.inferQuantity, inferQuantity_embed roots b]
  | .sub b (_ :: _ :: _) sh => by simp [embedFTree, inferQuantity, FTree.inferQuantity]

theorem isWhole_eq (t : FTree) (a : Amount) : Spec.isWhole t a = amountIsWhole t.inferQuantity a := by
  cases a with
  | quantity q => rfl
  | proportion v pc w pr => cases v <;> rfl

theorem canFold_eq (P : List FStmt) (st : FStmt) :
    Spec.canFold P st = (st.names.length == 1 && singleRefOk st.block st.tree.inferQuantity (refsTo P st.sid 0)) := by
  unfold Spec.canFold
  congr 1
  rcases refsTo P st.sid 0 with _ | ⟨⟨a, b⟩, _ | ⟨p', L⟩⟩
  · rfl
  · simp only [singleRefOk, isWhole_eq]
  · rfl

theorem singleRefOk_true {b : Nat} {iq : Option Quantity} {L : List (Amount × Nat)} (h : singleRefOk b iq L = true) :
    ∃ a, L = [(a, b)] := by
  rcases L with _ | ⟨⟨a, b'⟩, _ | ⟨p', L⟩⟩
  · cases h
  · simp only [singleRefOk, Bool.and_eq_true, beq_iff_eq] at h
    exact ⟨a, by rw [h.1]⟩
  · cases h

/-- **`can_be_inlined` is the documented condition**: for the table entry of a single-output statement `k`, the
    decision of the loop on the concrete entry (`o.refs` has one element, from the defining block, whose amount is the
    whole of `o.sub`) is `Spec.canFold` on the by-name program (the number of references by name is `o.refs.length`,
    same block, whole amount w.r.t. the inferred quantity of the already folded tree) -/
theorem canBeInlined_eq_canFold {asts : List (List AStmt)} {ns : List NStmt} {k : Nat}
    {P : List FStmt} {blocks : List Block} {outs : List NamedOutput} (hW : WFP asts ns k P)
    (hA : Abs asts ns k P blocks outs) {s : NStmt} (hk : ns[k]? = some s) {n0 : SVS} (hn : s.names = [n0])
    {i : Nat} {key : SVS} (hi : (definedNames ns)[i]? = some (key, k, 0)) :
    ∃ o st, outs[i]? = some o ∧ P[k]? = some st ∧ o.canBeInlined = Spec.canFold P st ∧
      o.refs.length = (refsTo P k 0).length := by
  obtain ⟨st, hst, hsid, hblk, hnames, hsh, hnamed⟩ := hW.get hk
  obtain ⟨o, u, ho, hu, hroot, hidx, hdef, hunw, hperm⟩ := hA.entry i key k 0 hi (Nat.le_refl _)
  rw [hst] at hu; cases hu
  have hstn : st.names = [n0] := by rw [hnames, hn]
  have hR : (rootsOfF P)[k]? = some (.sub (embedFTree (rootsOfF P) st.tree) [n0] st.showNames) := by
    rw [hW.root hst, embedFStmt_named _ _ (by rw [hstn]; simp), hstn]
  have hosub : o.sub = .sub (embedFTree (rootsOfF P) st.tree) [n0] st.showNames := by
    rw [hroot] at hR; exact Option.some.inj hR
  refine ⟨o, st, ho, hst, ?_, by simpa using hperm.length_eq⟩
  rw [canBeInlined_eq o _ hperm, canFold_eq, hosub, hdef, hsid]
  simp only [Tree.numOutputs, inferQuantity, inferQuantity_embed, hstn]

/-- **one-step simulation**: the iteration of the loop for the table entry of the single-output statement `k` is
    `Spec.foldStmt · k` on the abstract program -/
theorem step_single {asts : List (List AStmt)} {ns : List NStmt} (hs : Spec.blocks asts = .ok ns) {k : Nat}
    {P : List FStmt} {blocks : List Block} {outs : List NamedOutput} (hW : WFP asts ns k P)
    (hA : Abs asts ns k P blocks outs) {s : NStmt} (hk : ns[k]? = some s) {n0 : SVS} (hn : s.names = [n0])
    {i : Nat} {key : SVS} (hi : (definedNames ns)[i]? = some (key, k, 0)) :
    ∃ outs', foldStep i blocks outs = .ok (embedF asts.length (Spec.foldStmt P k), outs') ∧
      WFP asts ns (k + 1) (Spec.foldStmt P k) ∧
      Abs asts ns (k + 1) (Spec.foldStmt P k) (embedF asts.length (Spec.foldStmt P k)) outs' := by
  have hU := spec_keys_unique asts ns hs
  obtain ⟨st, hst, hsid, hblk, hnames, hsh, hnamed⟩ := hW.get hk
  obtain ⟨o, u, ho, hu, hroot, hidx, hdef, hunw, hperm⟩ := hA.entry i key k 0 hi (Nat.le_refl _)
  rw [hst] at hu; cases hu
  have hstn : st.names = [n0] := by rw [hnames, hn]
  have hR : (rootsOfF P)[k]? = some (.sub (embedFTree (rootsOfF P) st.tree) [n0] st.showNames) := by
    rw [hW.root hst, embedFStmt_named _ _ (by rw [hstn]; simp), hstn]
  have hosub : o.sub = .sub (embedFTree (rootsOfF P) st.tree) [n0] st.showNames := by
    rw [hroot] at hR; exact Option.some.inj hR
  -- the decision of the loop is the decision of the specification
  have hcan : o.canBeInlined = Spec.canFold P st := by
    rw [canBeInlined_eq o _ hperm, canFold_eq, hosub, hdef, hsid]
    simp only [Tree.numOutputs, inferQuantity, inferQuantity_embed, hstn]
  rw [foldStmt_eq, hst]
  simp only
  cases hc : Spec.canFold P st with
  | false =>
    simp only [Bool.false_eq_true, if_false]
    refine ⟨outs, ?_, hW.mono, ?_⟩
    · rw [foldStep_skip i blocks outs (fun o' ho' => by rw [ho] at ho'; cases ho'; rw [hcan, hc]), hA.blocks]
    · rw [← hA.blocks]; exact hA.mono
  | true =>
    simp only [if_true]
    rw [canFold_eq, Bool.and_eq_true] at hc
    obtain ⟨a, hone⟩ := singleRefOk_true hc.2
    rw [hsid] at hone
    have c : FoldCtx asts ns k P s st n0 a := ⟨hW, hU, hk, hst, hn, hone⟩
    have hoR : o.sub = c.R := hosub
    have horefs : o.refs = [(c.old, st.block)] := by
      rw [hone] at hperm
      have : o.refs = [(Tree.reference o.sub o.idx a, st.block)] := by simpa using hperm
      rw [this, hoR, hidx]; rfl
    have hblt : st.block < asts.length := by rw [hblk]; exact (spec_stmt_facts asts ns hs k s hk).1
    have hb : blocks[o.defBlock]? = some (FoldCtx.sel P st.block) := by
      rw [hA.blocks, hdef, FoldCtx.embedF_eq, List.getElem?_map, List.getElem?_range hblt]; rfl
    have hrm : removeFirst o.sub (FoldCtx.sel P st.block) = some (FoldCtx.selK k P st.block) := by
      rw [hoR]; exact c.removeRoot
    have hnew : (if o.unwrap then embedFTree (rootsOfF P) st.tree else o.sub) = c.new := by
      rw [hunw, hosub]
      simp only [FoldCtx.new, FStmt.inlined]
      cases st.named with
      | false => rfl
      | true => simp only [Bool.not_true, Bool.false_eq_true, if_false, if_true, embedFTree, hstn]
    have hstep := foldStep_fold i blocks outs o (embedFTree (rootsOfF P) st.tree) [n0] st.showNames c.old st.block []
      _ _ ho (by rw [hcan, canFold_eq, Bool.and_eq_true]; exact hc) hosub horefs hb hrm
    rw [hnew, hdef] at hstep
    refine ⟨outs.map (NamedOutput.substitute c.old c.new), ?_, c.wf', ?_⟩
    · rw [hstep, hA.blocks, c.blocks']
    · have := c.abs' hA
      rw [hA.blocks, c.blocks'] at this
      exact this

-- ================================================================ proofs: the whole loop

theorem stmtDefs_length (sid : Nat) : ∀ (names : List SVS) (i : Nat), (stmtDefs sid i names).length = names.length
  | [], _ => rfl
  | n :: ns, i => by simp [stmtDefs, stmtDefs_length sid ns (i + 1)]

theorem stmtDefs_getElem? (sid : Nat) : ∀ (names : List SVS) (i j : Nat),
    (stmtDefs sid i names)[j]? = names[j]?.map fun n => (normaliseName n, sid, i + j)
  | [], _, _ => by simp [stmtDefs]
  | n :: ns, i, 0 => by simp [stmtDefs]
  | n :: ns, i, j + 1 => by
    simp only [stmtDefs, List.getElem?_cons_succ, stmtDefs_getElem? sid ns (i + 1) j]
    have : i + 1 + j = i + (j + 1) := by omega
    rw [this]

/-- the table entries of statement `k` come after those of the statements before it -/
theorem defs_at (ns : List NStmt) (k : Nat) (s : NStmt) (hk : ns[k]? = some s) :
    definedNames ns = definedNames (ns.take k) ++ stmtDefs k 0 s.names ++ definedNamesFrom (k + 1) (ns.drop (k + 1)) := by
  obtain ⟨he, hl⟩ := getElem?_split ns k s hk
  conv => lhs; rw [he]
  simp only [definedNames, definedNamesFrom_append, definedNamesFrom, hl, Nat.zero_add, List.append_assoc]

theorem defs_take_succ (ns : List NStmt) (k : Nat) (s : NStmt) (hk : ns[k]? = some s) :
    definedNames (ns.take (k + 1)) = definedNames (ns.take k) ++ stmtDefs k 0 s.names := by
  rw [List.take_add_one, hk]
  have hl : (ns.take k).length = k := by
    have := (List.getElem?_eq_some_iff.mp hk).1
    simp; omega
  have := definedNames_snoc (ns.take k) s
  rw [hl] at this
  simpa using this

/-- the entry at position `|definedNames (take k)| + j` is output `j` of statement `k` -/
theorem defs_entry (ns : List NStmt) (k : Nat) (s : NStmt) (hk : ns[k]? = some s) (j : Nat) (hj : j < s.names.length) :
    ∃ key, (definedNames ns)[(definedNames (ns.take k)).length + j]? = some (key, k, j) := by
  rw [defs_at ns k s hk, List.append_assoc, List.getElem?_append_right (by omega)]
  rw [List.getElem?_append_left (by rw [stmtDefs_length]; omega)]
  have : (definedNames (ns.take k)).length + j - (definedNames (ns.take k)).length = j := by omega
  rw [this, stmtDefs_getElem?]
  exact ⟨normaliseName s.names[j], by simp [hj]⟩

/-- a statement that does not define exactly one output is not folded, neither by the loop nor by the
    specification -/
theorem step_multi {asts : List (List AStmt)} {ns : List NStmt} {k : Nat} {P : List FStmt} {blocks : List Block}
    {outs : List NamedOutput} (hW : WFP asts ns k P) (hA : Abs asts ns k P blocks outs) {s : NStmt}
    (hk : ns[k]? = some s) (hn : s.names.length ≠ 1) :
    foldAll s.names.length (definedNames (ns.take k)).length blocks outs = .ok (blocks, outs) ∧
    Spec.foldStmt P k = P := by
  obtain ⟨st, hst, hsid, hblk, hnames, hsh, hnamed⟩ := hW.get hk
  constructor
  · apply foldAll_skip
    intro j o h1 h2 ho
    obtain ⟨key, hd⟩ := defs_entry ns k s hk (j - (definedNames (ns.take k)).length) (by omega)
    have e : (definedNames (ns.take k)).length + (j - (definedNames (ns.take k)).length) = j := by omega
    rw [e] at hd
    obtain ⟨o', u, ho', hu, hroot, _⟩ := hA.entry j key k _ hd (Nat.le_refl _)
    rw [ho] at ho'; cases ho'
    rw [hst] at hu; cases hu
    have hne : st.names ≠ [] := by
      intro h0; rw [hnames] at h0; rw [h0] at h2; simp at h2; omega
    rw [hW.root hst, embedFStmt_named _ _ hne] at hroot
    have hsub := (Option.some.inj hroot).symm
    unfold NamedOutput.canBeInlined
    rw [hsub]
    have : (st.names.length == 1) = false := by rw [hnames]; simpa using hn
    simp only [Tree.numOutputs, this, Bool.false_and]
  · rw [foldStmt_eq, hst]
    simp only
    have : Spec.canFold P st = false := by
      rw [canFold_eq, hnames]
      have : (s.names.length == 1) = false := by simpa using hn
      rw [this, Bool.false_and]
    rw [this]
    simp

theorem loop_sim {asts : List (List AStmt)} {ns : List NStmt} (hs : Spec.blocks asts = .ok ns) :
    ∀ (m k : Nat) (P : List FStmt) (blocks : List Block) (outs : List NamedOutput), k + m = ns.length →
    WFP asts ns k P → Abs asts ns k P blocks outs →
    ∃ outs', foldAll ((definedNames ns).length - (definedNames (ns.take k)).length)
        (definedNames (ns.take k)).length blocks outs =
      .ok (embedF asts.length ((List.range' k m).foldl Spec.foldStmt P), outs')
  | 0, k, P, blocks, outs, hkm, hW, hA => by
    have : ns.take k = ns := List.take_of_length_le (by omega)
    rw [this, Nat.sub_self]
    exact ⟨outs, by rw [foldAll, hA.blocks]; rfl⟩
  | m + 1, k, P, blocks, outs, hkm, hW, hA => by
    have hlt : k < ns.length := by omega
    have hk : ns[k]? = some ns[k] := List.getElem?_eq_getElem hlt
    generalize ns[k] = s at hk
    have hsplit : (definedNames ns).length - (definedNames (ns.take k)).length =
        s.names.length + ((definedNames ns).length - (definedNames (ns.take (k + 1))).length) := by
      rw [defs_take_succ ns k s hk]
      have := congrArg List.length (defs_at ns k s hk)
      simp only [List.length_append, stmtDefs_length] at this ⊢
      omega
    have hnext : (definedNames (ns.take (k + 1))).length = (definedNames (ns.take k)).length + s.names.length := by
      rw [defs_take_succ ns k s hk, List.length_append, stmtDefs_length]
    rw [hsplit, foldAll_add, List.range'_succ, List.foldl_cons, ← hnext]
    by_cases hn : s.names.length = 1
    · obtain ⟨n0, hn0⟩ : ∃ n0, s.names = [n0] := by
        match hnm : s.names, hn with
        | [n0], _ => exact ⟨n0, rfl⟩
      obtain ⟨key, hd⟩ := defs_entry ns k s hk 0 (by omega)
      rw [Nat.add_zero] at hd
      obtain ⟨outs1, hstep, hW1, hA1⟩ := step_single hs hW hA hk hn0 hd
      rw [hn, foldAll_succ, hstep]
      simp only [Except.ok_bind, foldAll]
      exact loop_sim hs m (k + 1) _ _ _ (by omega) hW1 hA1
    · obtain ⟨hskip, hsame⟩ := step_multi hW hA hk hn
      rw [hskip, hsame]
      simp only [Except.ok_bind]
      exact loop_sim hs m (k + 1) _ _ _ (by omega) hW.mono hA.mono

-- ================================================================ proofs: the state elaboration leaves

mutual
theorem subNames_lift : ∀ t : NTree, (liftTree t).subNames = []
  | .ingredient .. => rfl
  | .step d inputs => by simp only [liftTree, FTree.subNames, subNamesList_lift inputs]
  | .nref .. => rfl
theorem subNamesList_lift : ∀ ts : List NTree, FTree.subNamesList (liftTrees ts) = []
  | [] => rfl
  | t :: ts => by simp only [liftTrees, FTree.subNamesList, subNames_lift t, subNamesList_lift ts, List.append_nil]
end

theorem lift_getElem? (asts : List (List AStmt)) (ns : List NStmt) (j : Nat) (u : FStmt)
    (h : (lift asts ns)[j]? = some u) : ∃ s, ns[j]? = some s ∧ u = liftStmt (namedFlags asts) j s := by
  unfold lift at h
  rw [liftFrom_getElem?] at h
  cases hs : ns[j]? with
  | none => rw [hs] at h; cases h
  | some s =>
    rw [hs] at h
    simp only [Option.map_some, Option.some.injEq, Nat.zero_add] at h
    exact ⟨s, rfl, h.symm⟩

theorem wfp_init {asts : List (List AStmt)} {ns : List NStmt} (hs : Spec.blocks asts = .ok ns) :
    WFP asts ns 0 (lift asts ns) where
  len := liftFrom_length _ ns 0
  static := fun j u hu => by
    obtain ⟨s, hsj, rfl⟩ := lift_getElem? asts ns j u hu
    exact ⟨s, hsj, rfl, rfl, rfl, rfl, rfl⟩
  refsBack := fun j u hu r hr => by
    obtain ⟨s, hsj, rfl⟩ := lift_getElem? asts ns j u hu
    simp only [liftStmt, refs_lift] at hr
    obtain ⟨key, hdef⟩ := (spec_stmt_facts asts ns hs j s hsj).2 r hr
    obtain ⟨hdef', hlt⟩ := definedNames_take hdef
    obtain ⟨s', hs', hn⟩ := (mem_definedNames ns _).mp hdef'
    refine ⟨hlt, s', hs', ?_⟩
    simp only at hn
    cases hx : s'.names[r.2.1]? with
    | none => rw [hx] at hn; cases hn
    | some x => exact (List.getElem?_eq_some_iff.mp hx).1
  dead := fun j u hu hl => by
    obtain ⟨s, _, rfl⟩ := lift_getElem? asts ns j u hu
    cases hl
  subs := fun j u hu nmx hn => by
    obtain ⟨s, _, rfl⟩ := lift_getElem? asts ns j u hu
    simp [liftStmt, subNames_lift] at hn

theorem refsTo_lift (asts : List (List AStmt)) (ns : List NStmt) (sid idx : Nat) :
    refsTo (lift asts ns) sid idx =
      ((allRefs ns).filter fun r => r.1 == sid && r.2.1 == idx).map fun r => (r.2.2.1, r.2.2.2) := by
  unfold refsTo lift
  rw [liveRefs_liftFrom]

theorem abs_init {asts : List (List AStmt)} {ns : List NStmt} (hs : Spec.blocks asts = .ok ns) {bs : List Block}
    {st : CState} (h : compileBlocks 0 {} asts = .ok (bs, st)) :
    Abs asts ns 0 (lift asts ns) bs st.outputs where
  blocks := by
    obtain ⟨ns', hs', hb⟩ := (elab_ok_iff asts bs).mp ⟨st, h⟩
    rw [hs] at hs'; cases hs'
    rw [hb, embedF_lift]
  len := (elab_table_entry asts bs st h ns hs).1
  entry := fun j key sid idx hd _ => by
    have hlen := (elab_table_entry asts bs st h ns hs).1
    have hlt : j < st.outputs.length := by rw [hlen]; exact (List.getElem?_eq_some_iff.mp hd).1
    have ho : st.outputs[j]? = some st.outputs[j] := List.getElem?_eq_getElem hlt
    generalize st.outputs[j] = o at ho
    obtain ⟨key', sid', s, b, hd', hsid, hroot, _, _, hblk, hrefs⟩ := elab_entry asts bs st h ns hs j o ho
    rw [hd] at hd'
    simp only [Option.some.injEq, Prod.mk.injEq] at hd'
    obtain ⟨_, rfl, hidx⟩ := hd'
    have hu : (lift asts ns)[sid]? = some (liftStmt (namedFlags asts) sid s) := by
      unfold lift
      rw [liftFrom_getElem?, hsid]
      simp
    refine ⟨o, _, ho, hu, by rw [rootsOfF_lift]; exact hroot, hidx.symm, hblk, ?_, ?_⟩
    · have hun := elab_unwrap asts bs st h ns hs
      unfold UnwrapIs at hun
      have := congrArg (fun l => l[j]?) hun
      simp only [List.getElem?_map, ho, hd, Option.map_some, Option.some.injEq] at this
      simpa [liftStmt, namedFlags] using this
    · rw [hrefs, refsTo_lift, List.map_map, hidx]
      exact List.Perm.of_eq rfl

-- ================================================================ C01.4 the refinement theorem

/-- the inlining pass, run on what elaboration leaves, computes the embedding of the by-name folding -/
theorem foldAll_refines_spec {asts : List (List AStmt)} {ns : List NStmt} (hs : Spec.blocks asts = .ok ns)
    {bs : List Block} {st : CState} (h : compileBlocks 0 {} asts = .ok (bs, st)) :
    ∃ outs', foldAll st.outputs.length 0 bs st.outputs =
      .ok (embedF asts.length (Spec.foldAll (lift asts ns)), outs') := by
  have hA := abs_init hs h
  obtain ⟨outs', hf⟩ := loop_sim hs ns.length 0 (lift asts ns) bs st.outputs (by omega) (wfp_init hs) hA
  simp only [List.take_zero, definedNames, definedNamesFrom, List.length_nil, Nat.sub_zero] at hf
  refine ⟨outs', ?_⟩
  have hl : st.outputs.length = (definedNamesFrom 0 ns).length := hA.len
  rw [hl, hf]
  unfold Spec.foldAll lift
  rw [liftFrom_length, List.range_eq_range']

/-- **C01.4** `compile` refines the by-name meaning: when every block parses, the result is the embedding of the
    by-name program after the documented folding, or the error of the by-name elaboration -/
theorem compile_refines_spec (srcs : List Str) (asts : List (List AStmt)) (hp : parseAll 0 srcs = .ok asts) :
    compile srcs = (match Spec.blocks asts with
                    | .error e => e.toCompile
                    | .ok ns => .ok (embedF srcs.length (Spec.foldAll (lift asts ns)))) := by
  have hlen : asts.length = srcs.length := (parseAll_ok srcs 0 asts hp).1
  have hsim := elab_sim asts
  cases hs : Spec.blocks asts with
  | error e =>
    rw [hs] at hsim
    simp only [compile, elabBlocks, hp]
    show (match compileBlocks 0 {} asts with | .error e => e | .ok (blocks, st) => _) = _
    rw [hsim]
  | ok ns =>
    rw [hs] at hsim
    obtain ⟨st, hc, _⟩ := hsim
    have he : elabBlocks srcs = .ok (embed asts.length ns, st) := by
      simp only [elabBlocks, hp]
      exact hc
    obtain ⟨outs', hf⟩ := foldAll_refines_spec hs hc
    have hv := C08.foldAll_valid asts _ st hc _ outs' hf
    rw [compile_of_elab he, hf]
    rw [hlen] at hv
    simp only [hlen, hv, if_true]

/-- the same for all inputs: `compile` is `specCompile` -/
theorem compile_eq_specCompile (srcs : List Str) : compile srcs = specCompile srcs := by
  unfold specCompile
  cases hp : parseAll 0 srcs with
  | error e => simp only [compile, elabBlocks, hp]; rfl
  | ok asts => exact compile_refines_spec srcs asts hp

-- ================================================================ C01.4 which outputs are folded

/-- the program when the turn of statement `k` comes: the statements before `k` have been considered -/
def Spec.before (P : List FStmt) (k : Nat) : List FStmt := (List.range k).foldl Spec.foldStmt P

/-- statement ids are positions -/
def SidOk (P : List FStmt) : Prop := ∀ (i : Nat) (u : FStmt), P[i]? = some u → u.sid = i

theorem foldStmt_cases (P : List FStmt) (j : Nat) :
    Spec.foldStmt P j = P ∨
    ∃ st, P[j]? = some st ∧ Spec.canFold P st = true ∧ Spec.foldStmt P j = P.map (killInline j st.inlined) := by
  rw [foldStmt_eq]
  cases hst : P[j]? with
  | none => exact Or.inl rfl
  | some st =>
    cases hc : Spec.canFold P st with
    | false => left; simp only [hc, Bool.false_eq_true, if_false]
    | true => right; exact ⟨st, rfl, hc, by simp only [hc, if_true]⟩

theorem foldStmt_length (P : List FStmt) (j : Nat) : (Spec.foldStmt P j).length = P.length := by
  rcases foldStmt_cases P j with h | ⟨_, _, _, h⟩ <;> rw [h]
  simp

theorem SidOk.foldStmt {P : List FStmt} (h : SidOk P) (j : Nat) : SidOk (Spec.foldStmt P j) := by
  rcases foldStmt_cases P j with h' | ⟨_, _, _, h'⟩ <;> rw [h']
  · exact h
  · intro i u' hu'
    obtain ⟨u, hu, rfl⟩ := FoldCtx.getMap hu'
    exact h i u hu

/-- considering another statement changes neither whether statement `i` remains, nor its names, block or `:=` flag -/
theorem foldStmt_other {P : List FStmt} (h : SidOk P) {i j : Nat} (hij : i ≠ j) :
    (Spec.foldStmt P j)[i]?.map (fun u => (u.live, u.names, u.block, u.named, u.showNames)) =
      P[i]?.map (fun u => (u.live, u.names, u.block, u.named, u.showNames)) := by
  rcases foldStmt_cases P j with h' | ⟨_, _, _, h'⟩ <;> rw [h']
  rw [List.getElem?_map]
  cases hu : P[i]? with
  | none => rfl
  | some u =>
    have : (u.sid != j) = true := by rw [h i u hu]; simpa using hij
    simp [killInline, this]

theorem foldl_other : ∀ (L : List Nat) (P : List FStmt), SidOk P → ∀ i, i ∉ L →
    (L.foldl Spec.foldStmt P)[i]?.map (fun u => (u.live, u.names, u.block, u.named, u.showNames)) =
      P[i]?.map (fun u => (u.live, u.names, u.block, u.named, u.showNames))
  | [], _, _, _, _ => rfl
  | j :: L, P, h, i, hi => by
    simp only [List.mem_cons, not_or] at hi
    rw [List.foldl_cons, foldl_other L _ (h.foldStmt j) i hi.2, foldStmt_other h hi.1]

theorem SidOk.foldl {P : List FStmt} (h : SidOk P) : ∀ (L : List Nat), SidOk (L.foldl Spec.foldStmt P)
  | [] => h
  | j :: L => by rw [List.foldl_cons]; exact SidOk.foldl (h.foldStmt j) L

theorem foldAll_split (P : List FStmt) (k : Nat) (hk : k < P.length) :
    Spec.foldAll P = (List.range' (k + 1) (P.length - (k + 1))).foldl Spec.foldStmt (Spec.foldStmt (Spec.before P k) k) := by
  unfold Spec.foldAll Spec.before
  have : List.range P.length = List.range k ++ k :: List.range' (k + 1) (P.length - (k + 1)) := by
    rw [List.range_eq_range', List.range_eq_range']
    have e : P.length = k + (1 + (P.length - (k + 1))) := by omega
    conv => lhs; rw [e]
    rw [← List.range'_append_1, ← List.range'_append_1]
    simp [List.range'_succ]
  rw [this, List.foldl_append, List.foldl_cons]

theorem foldl_length : ∀ (L : List Nat) (P : List FStmt), (L.foldl Spec.foldStmt P).length = P.length
  | [], _ => rfl
  | j :: L, P => by rw [List.foldl_cons, foldl_length L, foldStmt_length]

/-- the four documented conditions -/
theorem canFold_iff (P : List FStmt) (st : FStmt) :
    Spec.canFold P st = true ↔ st.names.length = 1 ∧
      ∃ a, refsTo P st.sid 0 = [(a, st.block)] ∧ Spec.isWhole st.tree a = true := by
  unfold Spec.canFold
  rcases refsTo P st.sid 0 with _ | ⟨⟨a, b⟩, _ | ⟨p', L⟩⟩
  · simp
  · simp only [Bool.and_eq_true, beq_iff_eq, List.cons.injEq, Prod.mk.injEq, and_true]
    constructor
    · rintro ⟨h1, h2, h3⟩
      exact ⟨h1, a, ⟨rfl, h2⟩, h3⟩
    · rintro ⟨h1, a', ⟨rfl, h2⟩, h3⟩
      exact ⟨h1, h2, h3⟩
  · simp

/-- **C01.4, which statements are folded.**  Statement `k` is deleted from the result of the folding (and its tree
    stands in place of its reference) exactly when, at its turn — the statements before it having been considered,
    `Spec.before P k` —, (1) it defines exactly one output, (2) the whole remaining program contains exactly one
    reference to it, (3) that reference is in a statement of the same block, and (4) it takes the whole amount
    (`Spec.isWhole`: no value, proportion 1, or a quantity equal to the inferred quantity of its already folded
    tree) -/
theorem folded_iff (P : List FStmt) (hsid : SidOk P) (hlive : ∀ u ∈ P, u.live = true) (k : Nat) :
    (∃ u, (Spec.foldAll P)[k]? = some u ∧ u.live = false) ↔
    ∃ st, (Spec.before P k)[k]? = some st ∧ st.names.length = 1 ∧
      ∃ a, refsTo (Spec.before P k) k 0 = [(a, st.block)] ∧ Spec.isWhole st.tree a = true := by
  have hblen : (Spec.before P k).length = P.length := foldl_length _ P
  by_cases hk : k < P.length
  · have hbsid : SidOk (Spec.before P k) := hsid.foldl _
    have hst : (Spec.before P k)[k]? = some (Spec.before P k)[k] := List.getElem?_eq_getElem (by omega)
    generalize (Spec.before P k)[k] = st at hst
    have hstsid : st.sid = k := hbsid k st hst
    have hstlive : st.live = true := by
      have := foldl_other (List.range k) P hsid k (by simp)
      rw [show (List.range k).foldl Spec.foldStmt P = Spec.before P k from rfl, hst,
        List.getElem?_eq_getElem hk] at this
      simp only [Option.map_some, Option.some.injEq, Prod.mk.injEq] at this
      rw [this.1]
      exact hlive _ (List.getElem_mem hk)
    have hfin := foldl_other (List.range' (k + 1) (P.length - (k + 1))) _ (hbsid.foldStmt k) k
      (by simp only [List.mem_range'_1]; omega)
    rw [← foldAll_split P k hk] at hfin
    have hstep : (Spec.foldStmt (Spec.before P k) k)[k]?.map (·.live) = some (!Spec.canFold (Spec.before P k) st) := by
      rw [foldStmt_eq, hst]
      simp only
      cases hc : Spec.canFold (Spec.before P k) st with
      | false => simp [hst, hstlive]
      | true => simp [hst, killInline, hstsid]
    have hlhs : (∃ u, (Spec.foldAll P)[k]? = some u ∧ u.live = false) ↔ Spec.canFold (Spec.before P k) st = true := by
      have h1 : (Spec.foldAll P)[k]?.map (·.live) = some (!Spec.canFold (Spec.before P k) st) := by
        rw [← hstep]
        have := congrArg (Option.map (fun p : Bool × List SVS × Nat × Bool × Bool => p.1)) hfin
        simpa [Option.map_map, Function.comp_def] using this
      cases hq : (Spec.foldAll P)[k]? with
      | none => rw [hq] at h1; cases h1
      | some u =>
        rw [hq] at h1
        simp only [Option.map_some, Option.some.injEq] at h1
        constructor
        · rintro ⟨u', hu', hl⟩
          cases hu'
          rw [hl] at h1
          simpa using h1.symm
        · intro hc
          exact ⟨u, rfl, by rw [h1, hc]; rfl⟩
    rw [hlhs, canFold_iff, hstsid]
    constructor
    · rintro ⟨h1, h2⟩; exact ⟨st, hst, h1, h2⟩
    · rintro ⟨st', hst', h1, h2⟩
      rw [hst] at hst'; cases hst'
      exact ⟨h1, h2⟩
  · have h1 : (Spec.foldAll P)[k]? = none := by
      rw [List.getElem?_eq_none_iff]
      unfold Spec.foldAll
      rw [foldl_length]; omega
    have h2 : (Spec.before P k)[k]? = none := by rw [List.getElem?_eq_none_iff]; omega
    rw [h1, h2]
    simp

/-- the names, block and `:=` flag of a statement never change -/
theorem before_static (P : List FStmt) (hsid : SidOk P) (k : Nat) :
    (Spec.before P k)[k]?.map (fun u => (u.names, u.block)) = P[k]?.map (fun u => (u.names, u.block)) := by
  have := congrArg (Option.map (fun p : Bool × List SVS × Nat × Bool × Bool => (p.2.1, p.2.2.1)))
    (foldl_other (List.range k) P hsid k (by simp))
  simpa [Option.map_map, Function.comp_def, Spec.before] using this

/-- **multi-output statements never fold** (nor statements that define nothing) -/
theorem multi_output_not_folded (P : List FStmt) (hsid : SidOk P) (hlive : ∀ u ∈ P, u.live = true) (k : Nat)
    (st : FStmt) (hst : P[k]? = some st) (hn : st.names.length ≠ 1) :
    ¬ ∃ u, (Spec.foldAll P)[k]? = some u ∧ u.live = false := by
  rw [folded_iff P hsid hlive k]
  rintro ⟨st', hst', h1, _⟩
  have := before_static P hsid k
  rw [hst, hst'] at this
  simp only [Option.map_some, Option.some.injEq, Prod.mk.injEq] at this
  rw [this.1] at h1
  exact hn h1

/-- **cross-block references never fold**: a statement whose references all come from other blocks stays -/
theorem cross_block_not_folded (P : List FStmt) (hsid : SidOk P) (hlive : ∀ u ∈ P, u.live = true) (k : Nat)
    (st : FStmt) (hst : P[k]? = some st) (hx : ∀ p ∈ refsTo (Spec.before P k) k 0, p.2 ≠ st.block) :
    ¬ ∃ u, (Spec.foldAll P)[k]? = some u ∧ u.live = false := by
  rw [folded_iff P hsid hlive k]
  rintro ⟨st', hst', _, a, h2, _⟩
  have := before_static P hsid k
  rw [hst, hst'] at this
  simp only [Option.map_some, Option.some.injEq, Prod.mk.injEq] at this
  exact hx (a, st'.block) (by rw [h2]; simp) this.2

/-- **what folding does**: every reference to the folded statement `k` is replaced by its tree — wrapped in a sub recipe
    with the statement's names (its title and outline are kept) when it was written with `:=` — and the statement is
    deleted; nothing else changes -/
theorem foldStmt_folded (P : List FStmt) (k : Nat) (st : FStmt) (hst : P[k]? = some st)
    (hc : Spec.canFold P st = true) :
    Spec.foldStmt P k = P.map fun u =>
      { u with tree := FTree.inline k (if st.named then .sub st.tree st.names st.showNames else st.tree) u.tree,
               live := u.live && u.sid != k } := by
  rw [foldStmt_eq, hst]
  simp only [hc, if_true]
  rfl

/-- … and a statement that cannot be folded changes nothing -/
theorem foldStmt_not_folded (P : List FStmt) (k : Nat) (st : FStmt) (hst : P[k]? = some st)
    (hc : Spec.canFold P st = false) : Spec.foldStmt P k = P := by
  rw [foldStmt_eq, hst]
  simp only [hc, Bool.false_eq_true, if_false]

/-- an inlined `:=` definition is compiled to a sub recipe node carrying its names -/
theorem embed_named_sub (roots : List Tree) (t : FTree) (names : List SVS) (sh : Bool) :
    embedFTree roots (.sub t names sh) = .sub (embedFTree roots t) names sh := rfl

/-- the hypotheses of the theorems above hold for every elaborated program -/
theorem lift_ok (asts : List (List AStmt)) (ns : List NStmt) :
    SidOk (lift asts ns) ∧ ∀ u ∈ lift asts ns, u.live = true := by
  constructor
  · intro i u hu
    obtain ⟨s, _, rfl⟩ := lift_getElem? asts ns i u hu
    rfl
  · intro u hu
    obtain ⟨i, hi⟩ := List.mem_iff_getElem?.mp hu
    obtain ⟨s, _, rfl⟩ := lift_getElem? asts ns i u hi
    rfl

-- ================================================================ non-vacuity: concrete programs, both sides evaluated

section Examples
/-- which statements remain after the by-name folding (`none` when the description is rejected) -/
private def remaining (srcs : List String) : Option (List Bool) :=
  match parseAll 0 (srcs.map String.toList) with
  | .error _ => none
  | .ok asts =>
    match Spec.blocks asts with
    | .error _ => none
    | .ok ns => some ((Spec.foldAll (lift asts ns)).map (·.live))

private def nRoots (srcs : List String) : Option (List Nat) :=
  match compile (srcs.map String.toList) with
  | .ok bs => some (bs.map List.length)
  | _ => none

/-- a chain of two folds, the second through a quantity-form reference (`100g fried spam` is all of `fried spam`
    because the inferred quantity of its already folded tree is `100g`) -/
private def chain : List String := ["100g spam\nfried spam = fry(spam)\nboil(100g fried spam, water)"]
example : compile (chain.map String.toList) = specCompile (chain.map String.toList) := by decide +kernel
example : remaining chain = some [false, false, true] ∧ nRoots chain = some [1] :=
  ⟨by decide +kernel, by decide +kernel⟩
/-- the result is the single tree `boil(fry(100g spam), water)` with no sub recipe and no reference left -/
example : (match compile (chain.map String.toList) with
    | .ok [[.step _ [.step _ [.ingredient _ (some _)], .ingredient _ none]]] => true
    | _ => false) = true := by decide +kernel

/-- with half of it the definition is not folded -/
private def chainHalf : List String := ["100g spam\nfried spam = fry(spam)\nboil(50g fried spam, water)"]
example : compile (chainHalf.map String.toList) = specCompile (chainHalf.map String.toList) := by decide +kernel
example : remaining chainHalf = some [false, true, true] ∧ nRoots chainHalf = some [2] :=
  ⟨by decide +kernel, by decide +kernel⟩

/-- a `:=` definition is folded but keeps its title and outline: a sub recipe node with shown names -/
private def named : List String := ["sauce := mix(tomato, onion)\npour(sauce, pasta)"]
example : compile (named.map String.toList) = specCompile (named.map String.toList) := by decide +kernel
example : remaining named = some [false, true] ∧ nRoots named = some [1] := ⟨by decide +kernel, by decide +kernel⟩
example : (match compile (named.map String.toList) with
    | .ok [[.step _ [.sub (.step _ [_, _]) [_] true, .ingredient _ none]]] => true
    | _ => false) = true := by decide +kernel

/-- a reference from another block never folds -/
private def cross : List String := ["sauce = mix(tomato, onion)", "pour(sauce, pasta)"]
example : compile (cross.map String.toList) = specCompile (cross.map String.toList) := by decide +kernel
example : remaining cross = some [true, true] ∧ nRoots cross = some [1, 1] := ⟨by decide +kernel, by decide +kernel⟩

/-- a multi-output statement never folds, however it is referenced -/
private def multi : List String := ["white, yolk = separate(egg)\nwhisk(white)\nmix(yolk, sugar)"]
example : compile (multi.map String.toList) = specCompile (multi.map String.toList) := by decide +kernel
example : remaining multi = some [true, true, true] ∧ nRoots multi = some [3] := ⟨by decide +kernel, by decide +kernel⟩

/-- errors are those of the by-name elaboration -/
example : compile ["a = f(x)\na = g(y)".toList] = .redefined 0 9 ∧ specCompile ["a = f(x)\na = g(y)".toList] = .redefined 0 9 :=
  ⟨by decide +kernel, by decide +kernel⟩
end Examples

end RG.C01
