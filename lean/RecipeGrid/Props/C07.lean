import RecipeGrid.Model.Text
import RecipeGrid.Model.Parser
import RecipeGrid.Lemmas.Text
/-! C07.2 — every reported error position (line, column, quoted line) lies in the source. -/
namespace RG.C07

/-- sample text for the non-vacuity checks: `"ab\r\ncd\nef"` -/
def sample : Str := ['a', 'b', '\r', '\n', 'c', 'd', '\n', 'e', 'f']

/-- the lines of a text with their terminators concatenate back to the text: nothing is lost or reordered -/
theorem splitLinesKeep_join (s : Str) : (splitLinesKeep s).flatten = s :=
  splitLinesKeep_flatten s

example : splitLinesKeep sample = [['a', 'b', '\r', '\n'], ['c', 'd', '\n'], ['e', 'f']] := by decide +kernel

/-- every line is non-empty -/
theorem splitLinesKeep_lines_nonempty (s : Str) : ∀ l ∈ splitLinesKeep s, l ≠ [] :=
  splitLinesKeepAux_ne_nil [] s

/-- only the end of a line can be a terminator: a line is its text without terminator (which contains
    no line break at all) followed by nothing, by `"\r\n"`, or by one line-break character -/
theorem splitLinesKeep_lines_shape (s : Str) : ∀ l ∈ splitLinesKeep s,
    (∀ c ∈ dropTerminator l, isLineBreak c = false) ∧
    (l = dropTerminator l ∨ l = dropTerminator l ++ ['\r', '\n'] ∨
      ∃ c, isLineBreak c = true ∧ l = dropTerminator l ++ [c]) := by
  intro l hl
  obtain ⟨body, hb⟩ := splitLinesKeep_shape s l hl
  rw [dropTerminator_of_shape l body hb]
  exact hb

example : (splitLinesKeep sample).map dropTerminator = [['a', 'b'], ['c', 'd'], ['e', 'f']] := by decide +kernel

/-- C07.2 located: for every source and every offset (also beyond the end) the reported line exists and the
    column is within or just past that line (counted with its terminator) -/
theorem offset_located (s : Str) (o : Nat) :
    let lc := offsetToLineCol s o
    1 ≤ lc.1 ∧ lc.1 ≤ max 1 (splitLinesKeep s).length ∧ 1 ≤ lc.2 ∧
    lc.2 ≤ ((splitLinesKeep s)[lc.1 - 1]?.getD []).length + 1 := by
  intro lc
  have hlc : lc = offsetToLineCol s o := rfl
  clear_value lc
  unfold offsetToLineCol at hlc
  split at hlc
  · rename_i e
    subst hlc; simp [e]
  · rename_i hne
    by_cases h : o < (splitLinesKeep s).flatten.length
    · have := offsetToLineColAux_found (splitLinesKeep s) o 0 0 h
      simp only [← hlc, Nat.sub_zero, Nat.zero_add] at this
      omega
    · have := offsetToLineColAux_past (splitLinesKeep s) o 0 0 (by omega)
      rw [← hlc] at this
      have hlen : 0 < (splitLinesKeep s).length := List.length_pos_iff.2 hne
      rw [this]
      simp only [Nat.zero_add]
      refine ⟨hlen, by omega, by omega, ?_⟩
      rw [List.getLast?_eq_getElem?]
      cases (splitLinesKeep s)[(splitLinesKeep s).length - 1]? <;> simp

example : offsetToLineCol sample 5 = (2, 2) ∧ offsetToLineCol sample 3 = (1, 4) ∧
    offsetToLineCol sample 9 = (3, 3) ∧ offsetToLineCol sample 100 = (3, 3) := by decide +kernel

/-- C07.2 exact: for an offset inside the text, the characters before it are exactly the lines before the
    reported line plus (column − 1) characters of the reported line -/
theorem offset_exact (s : Str) (o : Nat) (h : o < s.length) :
    let lc := offsetToLineCol s o
    (((splitLinesKeep s).take (lc.1 - 1)).flatten).length + (lc.2 - 1) = o ∧
    lc.2 ≤ ((splitLinesKeep s)[lc.1 - 1]?.getD []).length := by
  intro lc
  have hlc : lc = offsetToLineCol s o := rfl
  clear_value lc
  unfold offsetToLineCol at hlc
  split at hlc
  · rename_i e
    rw [splitLinesKeep_eq_nil] at e
    subst e; simp at h
  · have := offsetToLineColAux_found (splitLinesKeep s) o 0 0 (by rw [splitLinesKeep_flatten]; exact h)
    simp only [← hlc] at this
    exact ⟨by simpa using this.2.2.1, by simpa using this.2.2.2.2⟩

example : let lc := offsetToLineCol sample 5
    ((splitLinesKeep sample).take (lc.1 - 1)).flatten = ['a', 'b', '\r', '\n'] ∧ lc.2 - 1 = 1 := by
  decide +kernel

/-- the quoted snippet is that very line without its terminator -/
theorem extractLine_is_line (s : Str) (o : Nat) (hs : s ≠ []) :
    extractLine s (offsetToLineCol s o).1 =
      ((splitLinesKeep s)[(offsetToLineCol s o).1 - 1]?).map dropTerminator := by
  have := (offset_located s o).1
  simp only [extractLine, splitLines]
  rw [if_neg (by simpa using hs), if_neg (by omega)]
  simp

example : extractLine sample (offsetToLineCol sample 5).1 = some ['c', 'd'] := by decide +kernel

/-- the quoted snippet always exists: `extract_line` never raises `IndexError` on a reported line -/
theorem extractLine_total (s : Str) (o : Nat) : (extractLine s (offsetToLineCol s o).1).isSome := by
  by_cases hs : s = []
  · subst hs; simp [extractLine]
  · rw [extractLine_is_line s o hs]
    obtain ⟨h1, h2, -, -⟩ := offset_located s o
    have : (splitLinesKeep s) ≠ [] := by rwa [Ne, splitLinesKeep_eq_nil]
    have := List.length_pos_iff.2 this
    simp only [Option.isSome_map, isSome_getElem?]
    omega

example : extractLine sample (offsetToLineCol sample 100).1 = some ['e', 'f'] := by decide +kernel

end RG.C07

namespace RG.C07
/-- a zero denominator can no longer crash the parser: the outcome is a parse or a syntax error, for every text -/
theorem parse_never_zeroDivision (s : Str) : parse s ≠ .zeroDivision := by
  unfold parse; split <;> simp
end RG.C07
