import RecipeGrid.Model.Site
namespace RG.C15
/-- a recipe stating more servings than M is reported as an error, and only then -/
theorem too_many_servings_iff (root : Dir) (rootName : Str) (M : Nat) :
    (∃ n, sitePages root rootName M = .error (.maxServingsTooLow n)) ↔ M < maxNativeServings root := by
  unfold sitePages
  split <;> simp_all
end RG.C15
