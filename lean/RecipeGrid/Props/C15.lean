import RecipeGrid.Model.Site
import RecipeGrid.Lemmas.Site
/-! C15 — which pages exist: the home page first, one category hierarchy per serving count 1..M plus the
    unscaled `categories` hierarchy, one page per scalable recipe per serving count, one page per unscalable recipe. -/
namespace RG.C15
/-- a recipe stating more servings than M is reported as an error, and only then -/
theorem too_many_servings_iff (root : Dir) (rootName : Str) (M : Nat) :
    (∃ n, sitePages root rootName M = .error (.maxServingsTooLow n)) ↔ M < maxNativeServings root := by
  unfold sitePages
  split <;> simp_all

-- ================================================================ vocabulary
/-- `DirAt root dirs d`: following the directory names `dirs` down from `root` reaches the directory `d` -/
inductive DirAt : Dir → List Str → Dir → Prop
  | here (d : Dir) : DirAt d [] d
  | sub {d s d' : Dir} {dirs : List Str} : s ∈ d.subdirs → DirAt s dirs d' → DirAt d (s.name :: dirs) d'

/-- `InTree root dirs r`: recipe file `r` lies in the directory reached from `root` by the names `dirs` -/
inductive InTree : Dir → List Str → RecipeFile → Prop
  | here {d : Dir} {r : RecipeFile} : r ∈ d.recipes → InTree d [] r
  | sub {d s : Dir} {dirs : List Str} {r : RecipeFile} : s ∈ d.subdirs → InTree s dirs r → InTree d (s.name :: dirs) r

/-- the hierarchies of a site with maximum `M`: `none` = `categories`, `some n` = `serves<n>` for 1 ≤ n ≤ M -/
def Hierarchy (M : Nat) : Option Nat → Prop
  | none => True
  | some n => 1 ≤ n ∧ n ≤ M

/-- the two vocabularies agree with the helper predicate used in the lemma file -/
theorem dirAt_iff (root : Dir) (dirs : List Str) (d : Dir) : DirAt root dirs d ↔ SubDir root dirs d := by
  constructor
  · intro h
    induction h with
    | here d => exact SubDir.here d
    | sub hs _ ih => exact SubDir.sub hs ih
  · intro h
    induction h with
    | here d => exact DirAt.here d
    | sub hs _ ih => exact DirAt.sub hs ih

theorem inTree_iff (root : Dir) (dirs : List Str) (r : RecipeFile) :
    InTree root dirs r ↔ ∃ d, DirAt root dirs d ∧ r ∈ d.recipes := by
  constructor
  · intro h
    induction h with
    | here hr => exact ⟨_, DirAt.here _, hr⟩
    | sub hs _ ih =>
      obtain ⟨d, hd, hr⟩ := ih
      exact ⟨d, DirAt.sub hs hd, hr⟩
  · rintro ⟨d, hd, hr⟩
    induction hd with
    | here d => exact InTree.here hr
    | sub hs _ ih => exact InTree.sub hs (ih hr)

-- ================================================================ C15.1 the home page comes first
theorem home_first (root : Dir) (rootName : Str) (M : Nat) (ps : List Page) (h : sitePages root rootName M = .ok ps) :
    ps.head? = some ⟨"/index.html".toList, root.title (some rootName),
      [hrefRelative "/index.html".toList cssPath]
        ++ (List.range M).map (fun m => hrefRelative "/index.html".toList (catPath (some (m + 1)) []))
        ++ [hrefRelative "/index.html".toList (catPath none [])]⟩ := by
  rw [((sitePages_ok ..).mp h).2]
  rfl

-- ================================================================ C15.2 a category page per directory per hierarchy
/-- every directory of the tree has a category page in every hierarchy (`serves1`…`servesM`, `categories`) -/
theorem category_pages (root : Dir) (rootName : Str) (M : Nat) (ps : List Page) (h : sitePages root rootName M = .ok ps)
    (dirs : List Str) (d : Dir) (hd : DirAt root dirs d) (sv : Option Nat) (hsv : Hierarchy M sv) :
    catPath sv dirs ∈ ps.map (·.path) := by
  obtain ⟨p, hp, hpath⟩ := catPage_complete M sv ((dirAt_iff ..).mp hd) (homeChain root rootName) [] true
  rw [catDirs_true, List.nil_append] at hpath
  refine List.mem_map.mpr ⟨p, (mem_sitePages h p).mpr (.inr ⟨sv, ?_, hp⟩), hpath⟩
  cases sv <;> exact hsv

/-- the root category pages: `/serves<n>/index.html` for every 1 ≤ n ≤ M, and `/categories/index.html` -/
theorem scaled_roots (root : Dir) (rootName : Str) (M : Nat) (ps : List Page) (h : sitePages root rootName M = .ok ps) :
    (∀ n, 1 ≤ n → n ≤ M → catPath (some n) [] ∈ ps.map (·.path)) ∧ catPath none [] ∈ ps.map (·.path) :=
  ⟨fun n h1 h2 => category_pages root rootName M ps h [] root (DirAt.here root) (some n) ⟨h1, h2⟩,
   category_pages root rootName M ps h [] root (DirAt.here root) none trivial⟩

-- ================================================================ C15.3 recipe pages per serving count
/-- a scalable recipe has a page (with its title) for every serving count 1..M; its native count is among them -/
theorem recipe_pages_per_count (root : Dir) (rootName : Str) (M : Nat) (ps : List Page) (h : sitePages root rootName M = .ok ps)
    (dirs : List Str) (r : RecipeFile) (hr : InTree root dirs r) (native : Nat) (hs : r.servings = some native) :
    native ≤ M ∧ ∀ n, 1 ≤ n → n ≤ M → ∃ p ∈ ps, p.path = recipePath (some n) dirs r.file ∧ p.title = r.title := by
  obtain ⟨d, hd, hrd⟩ := (inTree_iff ..).mp hr
  have hsub := (dirAt_iff ..).mp hd
  refine ⟨Nat.le_trans (servings_le_max hsub r hrd native hs) ((sitePages_ok ..).mp h).1, ?_⟩
  intro n h1 h2
  obtain ⟨p, hp, hpath⟩ := recipePage_complete M (some n) hsub r hrd (by simp [hs]) (homeChain root rootName) [] true
  rw [catDirs_true, List.nil_append] at hpath
  exact ⟨p, (mem_sitePages h p).mpr (.inr ⟨some n, ⟨h1, h2⟩, hp⟩), hpath⟩

/-- an unscalable recipe has its (single) page in the `categories` hierarchy -/
theorem unscalable_recipe_page (root : Dir) (rootName : Str) (M : Nat) (ps : List Page) (h : sitePages root rootName M = .ok ps)
    (dirs : List Str) (r : RecipeFile) (hr : InTree root dirs r) (hs : r.servings = none) :
    ∃ p ∈ ps, p.path = recipePath none dirs r.file ∧ p.title = r.title := by
  obtain ⟨d, hd, hrd⟩ := (inTree_iff ..).mp hr
  have hsub := (dirAt_iff ..).mp hd
  obtain ⟨p, hp, hpath⟩ := recipePage_complete M none hsub r hrd (by simp [hs]) (homeChain root rootName) [] true
  rw [catDirs_true, List.nil_append] at hpath
  exact ⟨p, (mem_sitePages h p).mpr (.inr ⟨none, trivial, hp⟩), hpath⟩

/-- … and nothing else: every page is the home page, the category page of a directory of the tree in one of the
    hierarchies, the page of a scalable recipe in a `serves<n>` hierarchy, or the page of an unscalable recipe in
    `categories` (so an unscalable recipe is rendered exactly once, a scalable one never under `categories`) -/
theorem pages_classified (root : Dir) (rootName : Str) (M : Nat) (ps : List Page) (h : sitePages root rootName M = .ok ps) :
    ∀ p ∈ ps, p.path = "/index.html".toList ∨
      ∃ sv dirs, Hierarchy M sv ∧
        ((∃ d, DirAt root dirs d ∧ p.path = catPath sv dirs) ∨
         (∃ r, InTree root dirs r ∧ r.servings.isSome = sv.isSome ∧ p.path = recipePath sv dirs r.file ∧ p.title = r.title)) := by
  intro p hp
  rcases (mem_sitePages h p).mp hp with rfl | ⟨sv, hsv, hp⟩
  · exact .inl rfl
  · obtain ⟨rel, d', hsub, hcase⟩ := pages_sound M sv root (homeChain root rootName) [] true p hp
    rw [catDirs_true, List.nil_append] at hcase
    refine .inr ⟨sv, rel, by cases sv <;> exact hsv, ?_⟩
    rcases hcase with hc | ⟨r, hr, h1, h2, h3⟩
    · exact .inl ⟨d', (dirAt_iff ..).mpr hsub, hc⟩
    · exact .inr ⟨r, (inTree_iff ..).mpr ⟨d', (dirAt_iff ..).mpr hsub, hr⟩, h1, h2, h3⟩

-- ================================================================ C15.4 the number of pages
mutual
/-- number of pages of one hierarchy below a directory: one category page per directory, plus one page per
    scalable recipe (`scaled = true`, a `serves<n>` hierarchy) or per unscalable recipe (`scaled = false`, `categories`) -/
def hierarchySize (scaled : Bool) : Dir → Nat
  | .mk _ _ recipes subdirs =>
    1 + (recipes.filter fun r => r.servings.isSome == scaled).length + hierarchySizeList scaled subdirs
def hierarchySizeList (scaled : Bool) : List Dir → Nat
  | [] => 0
  | d :: ds => hierarchySize scaled d + hierarchySizeList scaled ds
end

/-- exactly these pages: home page, M scaled hierarchies, one unscaled hierarchy — no page is emitted twice -/
theorem page_count (root : Dir) (rootName : Str) (M : Nat) (ps : List Page) (h : sitePages root rootName M = .ok ps) :
    ps.length = 1 + M * hierarchySize true root + hierarchySize false root := by
  have key : ∀ (sv : Option Nat) (d : Dir) (chain : List (Str × Str)) (dirs : List Str) (isRoot : Bool),
      (categoryPages M sv chain dirs isRoot d).1.length = hierarchySize sv.isSome d := by
    intro sv d
    induction d using Dir.ind with
    | h n r recs subs ih =>
      intro chain dirs isRoot
      rw [length_categoryPages, hierarchySize]
      have hsum : ∀ (l : List Dir) (chain : List (Str × Str)) (dirs : List Str), (∀ s ∈ l, s ∈ subs) →
          (l.map fun s => (categoryPages M sv chain dirs false s).1.length).sum = hierarchySizeList sv.isSome l := by
        intro l chain dirs hl
        induction l with
        | nil => rfl
        | cons s l ihl =>
          rw [List.map_cons, List.sum_cons, hierarchySizeList, ih s (hl s (by simp)),
            ihl (fun t ht => hl t (by simp [ht]))]
      simp only [Dir.subdirs, Dir.recipes]
      rw [hsum subs _ _ (fun s hs => hs)]
      omega
  have hconst : ∀ (l : List Nat) (g : Nat → Nat) (c : Nat), (∀ x ∈ l, g x = c) → (l.map g).sum = l.length * c := by
    intro l g c hg
    induction l with
    | nil => simp
    | cons x xs ih =>
      rw [List.map_cons, List.sum_cons, hg x (by simp), ih (fun y hy => hg y (by simp [hy])), List.length_cons]
      rw [Nat.add_mul]; omega
  rw [((sitePages_ok ..).mp h).2]
  simp only [List.length_cons, List.length_append, length_flatMap_eq_sum]
  rw [hconst (List.range M) _ (hierarchySize true root) (fun m _ => key (some (m + 1)) root _ _ _), key none root]
  simp only [List.length_range, Option.isSome_none]
  omega

-- ================================================================ non-vacuity
/-- a small tree: a scalable recipe at the root, an unscalable one in a sub-directory -/
def exampleTree : Dir :=
  .mk "book".toList none [⟨"soup.md".toList, "Soup".toList, some 2⟩]
    [.mk "Cakes".toList none [⟨"tiffin.md".toList, "Tiffin".toList, none⟩] []]

example : (sitePages exampleTree "book".toList 2).toOption.map (·.map (·.path)) = some
    ["/index.html".toList,
     "/serves1/index.html".toList, "/serves1/Cakes/index.html".toList, "/serves1/soup.html".toList,
     "/serves2/index.html".toList, "/serves2/Cakes/index.html".toList, "/serves2/soup.html".toList,
     "/categories/index.html".toList, "/categories/Cakes/index.html".toList, "/categories/Cakes/tiffin.html".toList] := by decide
example : hierarchySize true exampleTree = 3 ∧ hierarchySize false exampleTree = 3 := by decide
example : InTree exampleTree ["Cakes".toList] ⟨"tiffin.md".toList, "Tiffin".toList, none⟩ :=
  InTree.sub (s := .mk "Cakes".toList none [⟨"tiffin.md".toList, "Tiffin".toList, none⟩] []) (by simp [exampleTree, Dir.subdirs])
    (InTree.here (by simp [Dir.recipes]))
example : ∃ n, sitePages exampleTree "book".toList 1 = .error (.maxServingsTooLow n) :=
  (too_many_servings_iff ..).mpr (by decide)
end RG.C15
