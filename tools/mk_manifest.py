#!/usr/bin/env python3
"""Writes MANIFEST.json from harness/props/*.py metadata (LEVEL_TEXT, LEVEL_NOTE, TECHNIQUE)."""
import importlib, json, os, sys
sys.path.insert(0, os.path.dirname(os.path.dirname(os.path.abspath(__file__))))
ALL = ["C%02d" % i for i in range(1, 21)]
checks, na = [], []
for pid in ALL:
    path = os.path.join(os.path.dirname(__file__), "..", "harness", "props", pid.lower() + ".py")
    if not os.path.exists(path):
        na.append({"property_id": pid, "reason": "not claimed yet: model and check for this property are not built in this commit (planned, see DESIGN.md section 5)"})
        continue
    src = open(path).read()
    ns = {}
    # metadata only: evaluate the top-level string constants without importing recipe_grid
    import ast
    tree = ast.parse(src)
    for node in tree.body:
        if isinstance(node, ast.Assign) and len(node.targets) == 1 and isinstance(node.targets[0], ast.Name):
            try:
                ns[node.targets[0].id] = ast.literal_eval(node.value)
            except Exception:
                pass
    checks.append({
        "property_id": pid,
        "quick_cmd": "./check %s --tier quick" % pid,
        "thorough_cmd": "./check %s --tier thorough" % pid,
        "evidence_file": "/verif/evidence/%s.json" % pid,
        "replay_cmd_template": "./check %s --replay {path}" % pid,
        "engine": "lean4-model+correspondence",
        "level_claimed": {"category": "proof", "text": ns.get("LEVEL_TEXT", ""), "design_ref": "DESIGN.md section 5, " + pid},
        "level_note": ns.get("LEVEL_NOTE", ""),
        "technique": ns.get("TECHNIQUE", "Lean 4 theorems about an executable model + exact model/code correspondence"),
    })
m = {
    "version": 1,
    "setup_cmd": "./check --setup",
    "hooks": {"guard": "RECIPE_GRID_VERIF", "enable": "none needed: all observation is in-process from the harness (no hook commits in /repo)",
              "baseline_off_cmd": "cd /repo && /venv/bin/python -m pytest -ra -q -p no:cacheprovider --timeout=900 --continue-on-collection-errors",
              "source_commits": [], "add_only": True},
    "engines": [{"name": "lean4-model+correspondence", "path": "/verif/lean", "serves_properties": [c["property_id"] for c in checks],
                 "kind_free_text": "Lean 4 executable model (import-free) with property theorems (axiom-audited), data regenerated from /repo by tools/gen_model.py, "
                                   "compiled line-protocol driver diffed against the real code in-process, implementation-level oracles for the failing-input search"}],
    "checks": checks,
    "not_applicable": na,
    "notes": "See DESIGN.md. Exit 2 = infrastructure error/timeout, never a verdict.",
}
json.dump(m, open(os.path.join(os.path.dirname(__file__), "..", "MANIFEST.json"), "w"), indent=1)
print("claimed", [c["property_id"] for c in checks])
