#!/usr/bin/env python3
"""Negative control:  tools/run_benign.py <dir with patch.diff> <C01,C05,...>
applies a behaviour-preserving patch to the repository (RECIPE_GRID_REPO, default /repo), runs the pinned tests and the listed checks (which
must all exit 0 without a VIOLATION line), ALWAYS restores the repository. Prints a JSON summary."""
import json
import os
import subprocess
import sys
import time

REPO = os.environ.get("RECIPE_GRID_REPO", "/repo")
VERIF = os.path.dirname(os.path.dirname(os.path.abspath(__file__)))


def sh(cmd, cwd=None, timeout=3600, env=None):
    p = subprocess.run(cmd, cwd=cwd, shell=isinstance(cmd, str), stdout=subprocess.PIPE, stderr=subprocess.STDOUT, text=True, timeout=timeout, env=env)
    return p.returncode, p.stdout


def main():
    d = os.path.abspath(sys.argv[1])
    checks = sys.argv[2].split(",")
    res = {"dir": d, "checks": {}}
    code, out = sh("git status --porcelain", cwd=REPO)
    if out.strip():
        print("refusing: repository is not clean:\n" + out)
        return 2
    env = dict(os.environ, PYTHONPATH=REPO, RECIPE_GRID_REPO=REPO, VERIF_EVIDENCE_DIR="/tmp/rg-benign-evidence")
    code, out = sh(["git", "apply", "--check", os.path.join(d, "patch.diff")], cwd=REPO)
    if code != 0:
        res["error"] = "patch does not apply: " + out[-300:]
        print(json.dumps(res, indent=1))
        return 2
    try:
        sh(["git", "apply", os.path.join(d, "patch.diff")], cwd=REPO)
        code, out = sh("/venv/bin/python -m pytest -q -p no:cacheprovider --deselect tests/test_with_mypy.py 2>&1 | tail -3", cwd=REPO, timeout=1800, env=env)
        res["tests_tail"] = out.strip().splitlines()[-1] if out.strip() else ""
        res["tests_pass"] = " passed" in out and " failed" not in out and " error" not in out
        for c in checks:
            t0 = time.time()
            code, out = sh(["./check", c, "--tier", "quick"], cwd=VERIF, timeout=7200, env=env)
            lines = [l for l in out.splitlines() if l.startswith(("VIOLATION", "INFRA")) or l.startswith(c + " tier")]
            res["checks"][c] = {"rc": code, "wall_s": round(time.time() - t0, 1), "lines": lines[-4:]}
            for l in lines:
                if l.startswith("VIOLATION") and "replay=" in l:
                    try:
                        rp = json.load(open(l.split("replay=")[1].split()[0]))
                        res["checks"][c].setdefault("replays", []).append({k: str(rp.get(k))[:400] for k in ("kind", "signature", "detail", "failed_modules", "correspondence_disagreements")})
                    except Exception:
                        pass
    finally:
        sh(["git", "checkout", "--", "."], cwd=REPO)
    print(json.dumps(res, indent=1))
    return 0


if __name__ == "__main__":
    sys.exit(main())
