#!/usr/bin/env python3
"""Evaluate seeded changes WITHOUT touching /repo or /verif, several at a time:

    tools/eval_seeded.py [--verif-rev REV] [--jobs N] [--tier quick] [--out FILE] <seeded dir>[:C01,C05] ...

For each seeded directory (patch.diff, demo.py; the property is read from meta.json or from the directory name) it creates
/tmp/ev/<id>/repo (a detached git worktree of /repo's HEAD with the patch applied) and /tmp/ev/<id>/verif (a detached worktree of
/verif at REV - default: the working tree copied as it is - plus a copy of the Lean build cache), then runs, with
RECIPE_GRID_REPO / PYTHONPATH pointing at the patched tree: the pinned tests (must pass), demo.py on the clean and on the patched tree
(0 / non-zero) and the property's quick check (must exit 1 with a VIOLATION line).  Everything under /tmp/ev/<id> is removed afterwards.
Prints one JSON object per change and writes them all to --out."""
import concurrent.futures
import json
import os
import shutil
import subprocess
import sys
import time

REPO = "/repo"
VERIF = os.path.dirname(os.path.dirname(os.path.abspath(__file__)))


def sh(cmd, cwd=None, timeout=3600, env=None):
    try:
        p = subprocess.run(cmd, cwd=cwd, shell=isinstance(cmd, str), stdout=subprocess.PIPE, stderr=subprocess.STDOUT, text=True,
                           timeout=timeout, env=env)
        return p.returncode, p.stdout
    except subprocess.TimeoutExpired as e:
        return 124, (e.stdout or b"").decode("utf-8", "replace") if isinstance(e.stdout, bytes) else (e.stdout or "")


def evaluate(d, checks, rev, tier):
    d = os.path.abspath(d)
    sid = os.path.basename(d.rstrip("/"))
    work = "/tmp/ev/" + sid
    shutil.rmtree(work, ignore_errors=True)
    os.makedirs(work)
    repo, verif = work + "/repo", work + "/verif"
    res = {"id": sid, "dir": d, "checks": {}}
    try:
        code, out = sh(["git", "-C", REPO, "worktree", "add", "--detach", repo, "HEAD"])
        if code != 0:
            res["error"] = "worktree: " + out[-300:]
            return res
        env_clean = dict(os.environ, PYTHONPATH=REPO)
        res["demo_clean_rc"], _ = sh(["/venv/bin/python", os.path.join(d, "demo.py")], cwd="/tmp", env=env_clean, timeout=900)
        code, out = sh(["git", "apply", os.path.join(d, "patch.diff")], cwd=repo)
        if code != 0:
            res["error"] = "patch does not apply: " + out[-300:]
            return res
        env = dict(os.environ, PYTHONPATH=repo, RECIPE_GRID_REPO=repo, VERIF_EVIDENCE_DIR=work + "/evidence")
        code, out = sh("/venv/bin/python -m pytest -q -p no:cacheprovider --deselect tests/test_with_mypy.py 2>&1 | tail -3", cwd=repo, timeout=1800, env=env)
        res["tests_tail"] = out.strip().splitlines()[-1] if out.strip() else ""
        res["tests_pass"] = " passed" in out and " failed" not in out and " error" not in out
        res["demo_patched_rc"], o = sh(["/venv/bin/python", os.path.join(d, "demo.py")], cwd="/tmp", env=env, timeout=900)
        res["demo_patched_tail"] = o.strip()[-300:]
        if rev:
            code, out = sh(["git", "-C", VERIF, "worktree", "add", "--detach", verif, rev])
            if code != 0:
                res["error"] = "verif worktree: " + out[-300:]
                return res
        else:
            os.makedirs(verif)
            for name in ("check", "harness", "tools", "known_findings.json", "properties.jsonl", "MANIFEST.json"):
                src = os.path.join(VERIF, name)
                (shutil.copytree if os.path.isdir(src) else shutil.copy2)(src, os.path.join(verif, name))
            shutil.copytree(os.path.join(VERIF, "lean"), os.path.join(verif, "lean"), ignore=shutil.ignore_patterns(".lake"))
        sh(["cp", "-r", os.path.join(VERIF, "lean", ".lake"), os.path.join(verif, "lean", ".lake")])
        res["verif_rev"] = rev or "working-tree"
        for c in checks:
            t0 = time.time()
            code, out = sh(["./check", c, "--tier", tier], cwd=verif, timeout=3000, env=env)
            lines = [l.replace(verif, "<verif>") for l in out.splitlines() if l.startswith(("VIOLATION", "KNOWN-FINDING", "INFRA")) or l.startswith(c + " tier")]
            r = {"rc": code, "wall_s": round(time.time() - t0, 1), "lines": [l[:400] for l in lines[-8:]], "replays": []}
            if code not in (0, 1):
                r["tail"] = out[-1500:]
            for l in out.splitlines():
                if l.startswith("VIOLATION") and "replay=" in l:
                    path = l.split("replay=")[1].split()[0]
                    try:
                        rp = json.load(open(path))
                        r["replays"].append({"kind": rp.get("kind"), "signature": rp.get("signature"), "detail": str(rp.get("detail"))[:400],
                                             "failed_modules": rp.get("failed_modules"), "disagreements": str(rp.get("correspondence_disagreements"))[:400] if rp.get("correspondence_disagreements") else None})
                    except Exception as e:  # noqa
                        r["replays"].append({"error": str(e)})
            r["detected"] = code == 1
            r["with_failing_input"] = any(x.get("kind") == "failing-input" for x in r["replays"])
            res["checks"][c] = r
    finally:
        sh(["git", "-C", REPO, "worktree", "remove", "--force", repo])
        if rev:
            sh(["git", "-C", VERIF, "worktree", "remove", "--force", verif])
        shutil.rmtree(work, ignore_errors=True)
        sh(["git", "-C", REPO, "worktree", "prune"])
        sh(["git", "-C", VERIF, "worktree", "prune"])
    return res


def main():
    args = sys.argv[1:]
    rev, jobs, tier, outf, items = None, 4, "quick", None, []
    while args:
        a = args.pop(0)
        if a == "--verif-rev":
            rev = args.pop(0)
        elif a == "--jobs":
            jobs = int(args.pop(0))
        elif a == "--tier":
            tier = args.pop(0)
        elif a == "--out":
            outf = args.pop(0)
        else:
            d, _, cs = a.partition(":")
            sid = os.path.basename(d.rstrip("/"))
            pid = sid.split("-")[0]
            mp = os.path.join(d, "meta.json")
            if os.path.exists(mp):
                pid = json.load(open(mp)).get("property", pid)
            items.append((d, cs.split(",") if cs else [pid]))
    results = []
    with concurrent.futures.ThreadPoolExecutor(max_workers=jobs) as ex:
        futs = [ex.submit(evaluate, d, cs, rev, tier) for d, cs in items]
        for f in concurrent.futures.as_completed(futs):
            r = f.result()
            results.append(r)
            print(json.dumps(r, indent=1), flush=True)
    results.sort(key=lambda r: r["id"])
    if outf:
        json.dump(results, open(outf, "w"), indent=1)
    for r in results:
        cs = r.get("checks", {})
        print("%-10s tests=%s demo=%s/%s  %s" % (r["id"], r.get("tests_pass"), r.get("demo_clean_rc"), r.get("demo_patched_rc"),
              "  ".join("%s:%s%s" % (c, "CAUGHT" if v["detected"] else ("rc=%s" % v["rc"] if v["rc"] else "MISSED"),
                                    "" if not v["detected"] or v["with_failing_input"] else "(no-input)") for c, v in cs.items()) or r.get("error")))
    return 0


if __name__ == "__main__":
    sys.exit(main())
