#!/usr/bin/env python3
"""tools/seeded_table.py [--merge RESULTS_DIR KEY] [--round N]

--merge: copy the check outcome of tools/run_seeded.py result files (RESULTS_DIR/<seeded id>.json) into
         seeded/<id>/meta.json under KEY (e.g. final_evaluation).
Prints the Markdown table of DESIGN.md section 10.5 for the given round (default: all)."""
import glob
import json
import os
import re
import sys

VERIF = os.path.dirname(os.path.dirname(os.path.abspath(__file__)))


def outcome(ev):
    if not ev:
        return "—", ""
    if ev.get("exit_code") == 2:
        return "INFRA", ""
    if not ev.get("detected"):
        return "MISSED", ""
    sigs = [r.get("signature") or r.get("kind") or "" for r in ev.get("replays", [])]
    sigs = [s for s in sigs if s]
    concrete = [s for s in sigs if s != "no-failing-input-found"]
    return "caught", (concrete or sigs or [""])[0]


def main():
    a = sys.argv[1:]
    rnd = None
    if "--round" in a:
        rnd = int(a[a.index("--round") + 1])
    if "--merge" in a:
        rd, key = a[a.index("--merge") + 1], a[a.index("--merge") + 2]
        for f in sorted(glob.glob(os.path.join(rd, "C*.json"))):
            name = os.path.basename(f)[:-5]
            mp = os.path.join(VERIF, "seeded", name, "meta.json")
            if not os.path.exists(mp):
                continue
            try:
                res = json.load(open(f))
            except Exception:
                txt = open(f).read()
                res = json.loads(txt[txt.index("{"):])
            pid = res["property"]
            c = res["checks"].get(pid, {})
            meta = json.load(open(mp))
            meta[key] = {"check": pid, "tier": "quick", "exit_code": c.get("rc"), "detected": c.get("rc") == 1,
                         "lines": c.get("lines", []), "replays": c.get("replays", []),
                         "tests_pass_with_patch": res.get("tests_pass"), "demo_exit_with_patch": res.get("demo_patched_rc"),
                         "demo_exit_on_clean_tree": res.get("demo_clean_rc")}
            json.dump(meta, open(mp, "w"), indent=1)
    print("| id | touches | first run | signature | after strengthening | signature |")
    print("|---|---|---|---|---|---|")
    for d in sorted(glob.glob(os.path.join(VERIF, "seeded", "C*"))):
        meta = json.load(open(os.path.join(d, "meta.json")))
        if rnd is not None and meta.get("round", 1) != rnd:
            continue
        files = sorted(set(re.findall(r"^\+\+\+ b/recipe_grid/(\S+)", open(os.path.join(d, "patch.diff")).read(), re.M)))
        f1, s1 = outcome(meta.get("first_evaluation"))
        f2, s2 = outcome(meta.get("final_evaluation"))
        print("| %s | %s | %s | `%s` | %s | `%s` |" % (os.path.basename(d), ", ".join(files), f1, s1, f2, s2))


if __name__ == "__main__":
    main()
