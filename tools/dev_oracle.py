#!/venv/bin/python
"""development helper: run only the implementation-level oracle (and optionally the correspondence, with the driver as
built) of one property in this process against whatever `recipe_grid` is first on PYTHONPATH. No Lean build, no evidence.
  PYTHONPATH=/tmp/worktree tools/dev_oracle.py C11 [--corr] [--tier quick]"""
import collections
import os
import sys

sys.path.insert(0, os.path.dirname(os.path.dirname(os.path.abspath(__file__))))
from harness import core  # noqa: E402
import importlib  # noqa: E402
import recipe_grid  # noqa: E402

pid = sys.argv[1]
tier = sys.argv[sys.argv.index("--tier") + 1] if "--tier" in sys.argv else "quick"
mod = importlib.import_module("harness.props." + pid.lower())
run = core.Run(pid, tier, int(os.environ.get("VERIF_SEED", "0")))
run.driver_ok = True
print("recipe_grid from", recipe_grid.__file__)
if "--corr" in sys.argv:
    mod.correspondence(run)
mod.oracle(run)
sigs = collections.Counter(v["signature"] for v in run.violations)
print("cases", run.evaluations, "disagreements", len(run.disagreements), "violations", dict(sigs))
for d in run.disagreements[:3]:
    print("DISAGREE", str(d)[:600])
seen = set()
for v in run.violations:
    if v["signature"] not in seen:
        seen.add(v["signature"])
        print("VIOL", v["signature"], str(v["detail"])[:400])
