#!/usr/bin/env python3
"""Evaluate a seeded change:  tools/run_seeded.py <dir with patch.diff, demo.py> <property id> [--checks C01,C05] [--tier quick]

1. confirms the demo passes on the clean /repo, 2. applies the patch to /repo, 3. runs the pinned test suite, the demo
(must fail) and the listed checks (default: the property's own check), 4. ALWAYS restores /repo (git checkout -- .).
Prints a JSON summary; never commits anything."""
import json
import os
import subprocess
import sys
import time

REPO = "/repo"
VERIF = os.path.dirname(os.path.dirname(os.path.abspath(__file__)))


def sh(cmd, cwd=None, timeout=3600, env=None):
    p = subprocess.run(cmd, cwd=cwd, shell=isinstance(cmd, str), stdout=subprocess.PIPE, stderr=subprocess.STDOUT, text=True, timeout=timeout, env=env)
    return p.returncode, p.stdout


def main():
    d = os.path.abspath(sys.argv[1])
    pid = sys.argv[2]
    checks = [pid]
    tier = "quick"
    for i, a in enumerate(sys.argv):
        if a == "--checks":
            checks = sys.argv[i + 1].split(",")
        if a == "--tier":
            tier = sys.argv[i + 1]
    patch = os.path.join(d, "patch.diff")
    demo = os.path.join(d, "demo.py")
    res = {"dir": d, "property": pid, "checks": {}}
    code, out = sh("git status --porcelain", cwd=REPO)
    if out.strip():
        print("refusing: /repo is not clean:\n" + out)
        return 2
    env = dict(os.environ, PYTHONPATH=REPO)
    res["demo_clean_rc"], o = sh(["/venv/bin/python", demo], cwd="/tmp", env=env, timeout=600)
    code, out = sh(["git", "apply", "--check", patch], cwd=REPO)
    if code != 0:
        res["error"] = "patch does not apply: " + out[-300:]
        print(json.dumps(res, indent=1))
        return 2
    try:
        sh(["git", "apply", patch], cwd=REPO)
        code, out = sh("/venv/bin/python -m pytest -q -p no:cacheprovider --deselect tests/test_with_mypy.py 2>&1 | tail -3", cwd=REPO, timeout=1800)
        res["tests_tail"] = out.strip().splitlines()[-1] if out.strip() else ""
        res["tests_pass"] = " passed" in out and " failed" not in out and " error" not in out
        res["demo_patched_rc"], o = sh(["/venv/bin/python", demo], cwd="/tmp", env=env, timeout=600)
        res["demo_patched_tail"] = o.strip()[-300:]
        for c in checks:
            t0 = time.time()
            code, out = sh(["./check", c, "--tier", tier], cwd=VERIF, timeout=7200, env=dict(os.environ, VERIF_EVIDENCE_DIR="/tmp/rg-seeded-evidence"))
            lines = [l for l in out.splitlines() if l.startswith(("VIOLATION", "KNOWN-FINDING", "INFRA")) or l.startswith(c + " tier")]
            res["checks"][c] = {"rc": code, "wall_s": round(time.time() - t0, 1), "lines": lines[-6:]}
            for l in lines:
                if l.startswith("VIOLATION") and "replay=" in l:
                    path = l.split("replay=")[1].split()[0]
                    try:
                        rp = json.load(open(path))
                        res["checks"][c].setdefault("replays", []).append({"kind": rp.get("kind"), "signature": rp.get("signature"), "detail": str(rp.get("detail"))[:300]})
                    except Exception:
                        pass
    finally:
        sh(["git", "checkout", "--", "."], cwd=REPO)
        code, out = sh("git status --porcelain", cwd=REPO)
        res["repo_clean_after"] = not out.strip()
    print(json.dumps(res, indent=1))
    return 0


if __name__ == "__main__":
    sys.exit(main())
